"""Bounded stand-ins (labelled bounded, never counted as proved): for the code a property depends on that no contract
reaches (listed per property in units/registry.py as assumptions), a by-construction check of the REAL code is run on every
check.  Inputs are assembled so that the expected verdict follows from the property statement alone; the bound of each
suite is stated in `bound`.  A mismatch is a violation with a replayed failing input."""
import random
import time


def _labels(deadline, rng, tier):
    from . import witness_alpha
    return witness_alpha.search_labels(deadline, rng)


def _scope(deadline, rng, tier):
    from . import witness_scope
    return witness_scope.search(deadline, rng, bodies=600 if tier == 'quick' else 6000, exhaustive_len=4 if tier == 'quick' else 6)


def _placement(deadline, rng, tier):
    from . import witness_alpha
    return witness_alpha.search_syntax(deadline, rng)


def _l1800(deadline, rng, tier):
    from . import witness_alpha
    return witness_alpha.search_l1800(deadline, rng)


def _types(deadline, rng, tier):
    from . import witness_types
    return witness_types.search(deadline, rng)


def _types_extra(deadline, rng, tier):
    from . import witness_extra
    return witness_extra.c07(deadline, rng, tier)


def _extern_abi(deadline, rng, tier):
    from . import witness_extra
    return witness_extra.c11_extern(deadline, rng, tier)


def _order_extra(deadline, rng, tier):
    from . import witness_extra
    return witness_extra.c11(deadline, rng, tier)


def _mut(deadline, rng, tier):
    from . import witness_mut, witness_types
    return witness_mut.search(deadline, rng) or witness_types.search(deadline, rng, only='with the & missing')


def _literals(deadline, rng, tier):
    from . import witness_literals
    return witness_literals.search(deadline, rng, limit=None if tier == 'thorough' else 400)


def _lexa(deadline, rng, tier):
    from . import witness_lexa
    return witness_lexa.search(deadline, rng)


def _lexd(deadline, rng, tier):
    from . import witness_lexd
    return witness_lexd.search(deadline, rng)


def _lexd_invalid(deadline, rng, tier):
    from . import witness_lexd
    return witness_lexd.search(deadline, rng, only_invalid=True)


def _lexa_crlf(deadline, rng, tier):
    # sub-case with its own obligation: the same token sequences with CRLF line ends
    from . import witness_lexa
    w = witness_lexa.search(min(deadline, time.time() + 4), rng, newline='\r\n')
    return [('CRLF line ends', w)] if w else []


def _layout(deadline, rng, tier):
    from . import witness_layout
    return witness_layout.search(deadline, rng)


def _order(deadline, rng, tier):
    from . import witness_order
    return witness_order.search(deadline, rng, graphs=400 if tier == 'thorough' else 150, orders=120 if tier == 'thorough' else 12)


def _invariance(deadline, rng, tier):
    from . import witness_order
    return witness_order.invariance_search(deadline, rng, modules=400 if tier == 'thorough' else 150, orders=120 if tier == 'thorough' else 8)


def _modules(deadline, rng, tier):
    from . import witness_modules
    return witness_modules.search(deadline, rng, max_orders=24 if tier == 'thorough' else 6)


def _determinism(deadline, rng, tier):
    from . import witness_determinism
    return witness_determinism.search(deadline, rng, n=400 if tier == 'thorough' else 40, runs=5 if tier == 'thorough' else 3)


def _locations(deadline, rng, tier):
    from . import witness_locations
    return witness_locations.search(deadline, rng, n_samples=400 if tier == 'thorough' else 60)


def _render(deadline, rng, tier):
    from . import witness_render
    return witness_render.search(deadline, rng, n_samples=400 if tier == 'thorough' else 40)


def _delta_crash(deadline, rng, tier):
    from . import witness
    return witness.search('C15', 'U-PARSE', {}, tier, rng.randrange(1 << 30), deadline=deadline)


def _large(deadline, rng, tier):
    from . import witness_depth
    return witness_depth.search_large(deadline, rng)


def _depth(deadline, rng, tier):
    from . import witness_depth
    return witness_depth.search_all(deadline, rng, tier)     # a LIST: one obligation per shape and stage


def _header(deadline, rng, tier):
    from . import witness_header
    return witness_header.search(deadline, rng)


# property -> [(suite name, function, what is not under contract, stated bound)]
SUITES = {
    'C04': [('label_scoping', _labels, 'surfacing of E400/E420 through the resolver',
             'random function bodies: <= 12 statements, 2 label names, nesting depth <= 3; gotos, conditional gotos, labels, blocks, if-blocks, if/else with two braced branches; each through the scoper alone (counts of E400/E420) and through the whole pipeline (E400/E420 reported exactly when expected, no stage fails on a poisoned statement)')],
    'C05': [('scoping_and_skipped_declarations', _scope, 'the tree walk of variable_references.rs (the Analyzable impls: where and in which order the scope-stack and pruning functions are called), and the surfacing of the errors through the resolver',
             '18 fixed programs (4 of them with function heads without body); 400 bodies of the family (goto placement, incl. from a block with a local of the same name, x declaration before/after the goto x what stands between label and use x where the use stands); every body of <= 4 (thorough: <= 6) items over {declare a, declare b, use a, use b, conditional goto, label, open block, close block} with valid jumps (947 / 30806 bodies, empty blocks included); 600 (thorough: 6000) random function bodies: <= 24 statements, nesting depth <= 3, 8 variable names, 2 parameters, 2 constants; declarations, assignments, (empty) blocks, if/else, conditional gotos, closing gotos, labels, loops; verdict by an independent definitely-declared dataflow')],
    'C06': [('statement_placement', _placement, 'surfacing of E800/E801/E840 through the resolver',
             'random function bodies: <= 12 statements, nesting depth <= 3; loop, if/else with and without braces, goto, blocks, assignments incl. ones that another pass rejects (to a parameter, to a constant); each through the analyzer alone and through the whole pipeline (the counts of E840/E800/E801 REPORTED equal the counts by construction)'),
            ('lint_l1800', _l1800, 'the path from linter to reported lints; typer in between',
             'random placement-valid bodies (depth <= 4): exactly one L1800 per braced branch whose first statement is loop, none otherwise; in the RESOLVED tree of each accepted program every loop is still the last statement of a block')],
    'C07': [('operators_and_calls', _types, 'the typer (unification, Autocoerce insertion)',
             'every binary/comparison/unary operator x 15 operand types (identical pairs; 6 random mixed pairs per operator); calls with 0..3 parameters: exact, one argument dropped, one added, one mistyped, & missing; literal operands; all 169 `as` casts; 11 negated literals (unsigned, hexadecimal, binary, at 2^127: E550; signed incl. the minimum: accepted); 12 bit casts (pointer to pointer, identical type, integer/pointer mixes, array-view pointers); sized-array pointers; assignments through member/element chains (about 729 programs)'),
            ('typing_of_members_and_addresses', _types_extra, 'typer: typing of structure literal members, of assignments through member/element chains, of address depth',
             '38 single programs, one obligation each: pointers passed for value parameters and for parameters one pointer level short (4); index/member steps on something that is neither array nor structure (3); an array view behind a pointer assigned to an element (1); excess, exact and missing addresses on arguments, initial values and assigned values (11); a structure literal member of another type (2), an excess address on an argument, well-typed assignments through member/element/pointer chains (6: element of an array member, member of an array element, through a pointer member, word into an array-of-words member, member of such an element, whole array member), ill-typed ones that must be E504 (4), an array view assigned to an array element, through a pointer, and to/through members (6: must be an error - E504 where the member path is involved -, not a failed assertion)')],
    'C08': [('mutating_uses', _mut, 'the whole-program consequence; the typer',
             'about 125 programs: 7 kinds of target x (assignment, address handed to a writing callee in 15 expression/statement contexts incl. index expressions, address stored in a structure literal that is handed to a writing callee); the same call WITHOUT & in each context (E513); whole-aggregate copies (E531-E533) incl. aggregates reached through an index or a member; local slices; elements/members of constants and of by-value word parameters; & missing on pointer arguments')],
    'C09': [('literal_range_lints', _literals, 'alpha parser (minus folding, signed/bit split), typer literal typing',
             '10 integer types x ~14 boundary values x up to 5 spellings x (typed by declaration, typed by suffix); 60 literals just beyond and far beyond 128 bits (every last digit of 2^128+0..9, with and without underscores and suffix), always included'),
            ('invalid_lexemes_rejected', _lexd_invalid, 'which escapes, quotes and suffixes the lexers reject',
             '48 inputs with one invalid lexeme (control characters, bad or unclosed escapes, unclosed quotes, bad digits, keyword and misspelt suffixes, stray symbols): rejected by both lexers'),
            ('alpha_lexer_tokens', _lexa, 'completeness of literal acceptance in the alpha lexer',
             'random token sequences (1..6 tokens) built from atoms with known kind, payload and span: integers at boundaries in 3 bases, strings/chars from escape elements, keywords, punctuation, identifiers, one-bad-escape literals')],
    'C11': [('word_layout', _layout, 'typer layout beyond align_struct',
             'words of 1..5 integer members (all 9 sizes) x 5 declared sizes, <= 900 cases'),
            ('order_and_cycles', _order, 'scoper cycle detection (found_container*), declaration sorting',
             'random dependency graphs of <= 5 constants or <= 5 structures, acyclic or with one simple cycle of length 1..5, each in 12 (thorough: all) declaration orders'),
            ('named_length_behind_pointer', _order_extra, 'typer: resolution of named lengths in declaration order',
             '2 single programs, one obligation each: a structure with a member of type &[N]i32 declared before / after the constant N'),
            ('extern_abi_types', _extern_abi, 'fix_type_for_flags / fix_return_type_for_flags (the callers of externalize_type, which is under contract)',
             '12 primitive types x 7 positions of an extern signature (parameter / return type of a head and of a definition, element of an array view, pointee of a pointer parameter and of a returned pointer): accepted iff the type is in the documented ABI list, else E358'),
            ('permutation_invariance', _invariance, 'scoper name resolution (use_struct/use_constant), declaration sorting',
             'modules of 2..6 declarations drawn from 24 templates (incl. a word and structures that hold it by value and behind a pointer) (constants, structures, functions; shared names across namespaces, missing dependencies, duplicates): every one of 8 (thorough: all) permutations accepted or rejected alike; templates include declarations without a body (extern heads) and functions whose parameters and locals share their parameter names')],
    'C12': [('module_visibility', _modules, 'expand() (import fix-point), path resolution in context',
             '33 module sets of 2..4 files (public/private function, constant, structure, opaque structure; direct, missing, transitive, diamond, duplicate, mutual and late imports; relative paths; look-alike file names; an empty or comment-only file and a bystander module among the files; parameter names of imported functions; an imported function with an array-view parameter, an imported word used as a member of a word, the members of an imported structure) x file orders')],
    'C13': [('determinism', _determinism, 'HashMap/HashSet iteration order in scoper/typer/expander',
             'invalid and valid samples of the repository plus 4 constructed multi-error modules (these 8 times; thorough: 10), each compiled in 3 (thorough: 5) fresh processes'),
            ('diagnostic_locations', _locations, 'alpha parser span bookkeeping (location_of_span, combined_with call sites), error.rs',
             '12 programs with 18 diagnostics whose primary (for E358 also the secondary, declaration) location must be the line and text of the offending construct (calls, multi-line string literals, undefined names, the last operator of a chain, a non-ABI type directly and behind pointers, extern declarations that follow other declarations); every Location in the diagnostics of 10 multi-line constructs, 120 (thorough: all 270) prefixes of one module cut at arbitrary characters (the file ends at its last token), 80 by-construction rejected programs, 60 (thorough: all) invalid samples and 40 CRLF variants: inside the source, starting on the reported line'),
            ('rendering', _render, 'error.rs build_report/write and the ariadne renderer',
             'the diagnostics of all (about 900) by-construction rejected programs of the C07/C08/C09 families and 40 (thorough: all) invalid samples x 4 colour/charset configurations: no failure, no escape sequence when colour is off, ASCII when colour is off and arrows are ascii'),
            ('alpha_lexer_spans', _lexa, 'none (spans are also proved: U-LEXA); kept as replay source', 'as C09.alpha_lexer_tokens'),
            ('alpha_lexer_spans_crlf', _lexa_crlf, 'the trusted model of str::split_inclusive / strip_suffix on which the proved line offsets rest',
             'as C09.alpha_lexer_tokens with every line end written CRLF')],
    'C14': [('alpha_lexer_tokens', _lexa, 'agreement of the two lexers (each is verified against its own spec)', 'as C09.alpha_lexer_tokens'),
            ('delta_lexer_tokens_and_agreement', _lexd, 'classification of every lexeme by the second-generation lexer; agreement of the two lexers',
             'the token sequences of C09.alpha_lexer_tokens through the second-generation lexer (kind, value type, payload by construction); 54 inputs with an invalid lexeme (incl. an overflowing literal with an unknown suffix, surrogates in \\u escapes) and 30 literals with two faults (a first fault and no closing quote) must be rejected by both lexers, which must name the same faults in the same order, the first fault first'),
            ('alpha_lexer_tokens_crlf', _lexa_crlf, 'the trusted model of str::split_inclusive / strip_suffix', 'as C09.alpha_lexer_tokens with every line end written CRLF')],
    'C15': [('delta_front_end_crash_search', _delta_crash, 'XML dumps, recursion depth',
             'fixed seeds, every sequence of <= 2 (thorough: <= 3) of 23 expression tokens where an expression, a statement, a constant value, an if-condition or an else-branch is expected and at the end of the file (plus a random sample one token longer), boundary runs of every token (127..1000 repeats), inputs at the token limit, repository samples, token soup of length <= 4 (thorough: <= 6)'),
            ('invalid_lexemes_rejected', _lexd_invalid, 'which bytes and escapes the lexer accepts inside literals',
             '48 inputs with one invalid lexeme (control characters in literals and between tokens, bad or unclosed escapes, unclosed quotes, bad digits, keyword and misspelt suffixes, stray symbols): rejected by both lexers'),
            ('large_valid_modules', _large, 'the capacity arithmetic of the token and node buffers on large inputs (proved per function, but only under the preconditions its callers establish)',
             '16 well-formed modules of 100..250 KiB (4 kinds of declaration repeated; 0.15..0.47 tokens per byte, up to ~120000 tokens): accepted by lexer, parser and header extraction without diagnostics'),
            ('deep_nesting', _depth, 'recursion depth of the parser (unbounded stack is an assumption of the proof); the XML printer',
             '16 shapes of valid modules (nested expressions, blocks, ifs, literals, calls, types; long lists and chains) with 3000 levels/items, through (lex, parse, header) and through the XML dumps')],
    'C17': [('header_xml', _header, 'refs_ok (no reference crosses a zone) on the parser side; XML dump',
             'random modules of 1..6 declarations of 12 kinds (imports; constants whose values name identifiers, array literals and structure literals included), public or private; header XML compared with the tree XML restricted to Public declarations')],
}
BUDGET = {'quick': 8, 'thorough': 120}


def run(pid, tier, seed):
    out = []
    rng = random.Random((seed or 0) * 1000003 + 17)
    from . import replayrun
    exe, berr = replayrun.build()
    if exe is None:
        # the runner uses the public library API; if a change of that API keeps it from building, nothing is run (and said so)
        return [{'suite': name, 'obligation': '%s.bounded.%s' % (pid, name), 'level': 'bounded', 'stands_in_for': w, 'bound': b, 'executions_of_real_code': 0,
                 'failing_input': None, 'error': 'replay runner does not build against this tree, suite not run: ' + (berr or '')[-300:]} for name, fn, w, b in SUITES.get(pid, [])]
    for name, fn, not_under_contract, bound in SUITES.get(pid, []):
        t0 = time.time()
        from . import replayrun
        n0 = replayrun.RUNS[0]
        try:
            w = fn(time.time() + BUDGET.get(tier, 8), rng, tier)
            err = None
        except Exception as e:
            w, err = None, str(e)[:300]
        base = {'suite': name, 'level': 'bounded', 'stands_in_for': not_under_contract, 'bound': bound,
                'budget_s': BUDGET.get(tier, 8), 'seconds': round(time.time() - t0, 1), 'executions_of_real_code': replayrun.RUNS[0] - n0, 'error': err}
        if isinstance(w, list):
            # one obligation per failing sub-case (so that a recorded finding for one shape does not hide another shape)
            out.append(dict(base, obligation='%s.bounded.%s' % (pid, name), failing_input=None, sub_cases_failing=len(w)))
            for sub, wit in w:
                out.append(dict(base, obligation='%s.bounded.%s[%s]' % (pid, name, sub), failing_input=wit))
        else:
            out.append(dict(base, obligation='%s.bounded.%s' % (pid, name), failing_input=w))
    return out
