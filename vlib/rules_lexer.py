"""Rewrite rules needed by the delta lexer (R4 typed, R5, R6, R7, R12) - see DESIGN.md 2.3."""
import re
from . import rsparse
from .rsparse import LostAnchor, tokenize

BYTE_ESC = {'n': 10, 'r': 13, 't': 9, '\\': 92, "'": 39, '"': 34, '0': 0}


def byte_lit_value(lit):
    """b'x' / b'\\n' / b'\\x41' -> int"""
    assert lit.startswith("b'") and lit.endswith("'")
    s = lit[2:-1]
    if s.startswith('\\x'):
        return int(s[2:], 16)
    if s.startswith('\\'):
        return BYTE_ESC[s[1]]
    return ord(s)


def bytestr_values(lit):
    """b"abc" -> [97, 98, 99]  (only plain ASCII and simple escapes occur in /repo)"""
    s = lit[2:-1]
    out = []
    i = 0
    while i < len(s):
        if s[i] == '\\':
            if s[i + 1] == 'x':
                out.append(int(s[i + 2:i + 4], 16))
                i += 4
            else:
                out.append(BYTE_ESC[s[i + 1]])
                i += 2
        else:
            out.append(ord(s[i]))
            i += 1
    return out


def r5_peek_iter(u, key, text):
    """R5: `E.iter().copied().enumerate().peekable()` -> `PeekIter::new(E)` (verified shim, prelude/peek_iter.rs)"""
    pat = re.compile(r'\b(\w+)\.iter\(\)\.copied\(\)\.enumerate\(\)\.peekable\(\)')
    n = len(pat.findall(text))
    if n:
        u.rules['R5'] += n
        text = pat.sub(r'PeekIter::new(\1)', text)
    return text


def r6_by_value_patterns(u, key, text):
    """R6: the shim's peek() returns by value, so `Some(&(_, y)) = iter.peek()` -> `Some((_, y)) = iter.peek()`;
    closure pattern params `|&(_, y)| E` -> `|p: &(usize, u8)| -> (r: bool) ensures r == (E') { E' }` with y := p.1
    (byte literals in the ghost copy written as numbers); `|()|` -> `|_u: ()|`."""
    n = 0
    pat = re.compile(r'Some\(&\(')
    n += len(pat.findall(text))
    text = pat.sub('Some((', text)

    def clos(m):
        nonlocal n
        var = m.group(1)
        expr = m.group(2)
        e2 = re.sub(r'\b%s\b' % var, 'p.1', expr)
        ghost = re.sub(r"b'(?:\\.|[^'\\])[^']*'", lambda mm: '%du8' % byte_lit_value(mm.group(0)), e2)
        n += 1
        return '|p: &(usize, u8)| -> (r: bool) ensures r == (%s) { %s })' % (ghost, e2)
    text = re.sub(r"\|&\(_,\s*(\w+)\)\|\s*([^(){};]+?)\)", clos, text)
    k = len(re.findall(r'\|\(\)\|', text))
    if k:
        text = re.sub(r'\|\(\)\|', '|_u: ()|', text)
        n += k
    if n:
        u.rules['R6'] += n
    return text


def r7_bytestring_patterns(u, key, text):
    """R7: byte-string literal patterns `b"fn" =>` / `b"i8" | b"i16" =>` in `match X {` become
    `_ if slice_eq(X, &[102u8, 110u8]) =>` (Verus emits ill-typed AIR for byte-string patterns: tool bug).
    Arm order is preserved, so first-match semantics are unchanged."""
    arm = re.compile(r'(?m)^(\s*)((?:b"(?:[^"\\]|\\.)*"\s*\|?\s*)+)=>')
    out = []
    pos = 0
    n = 0
    for m in arm.finditer(text):
        lits = re.findall(r'b"(?:[^"\\]|\\.)*"', m.group(2))
        # scrutinee: nearest preceding `match IDENT` line
        mm = None
        for mm in re.finditer(r'match\s+(\w+)\s*\{?\s*$', text[:m.start()], re.M):
            pass
        if mm is None:
            raise LostAnchor('%s: R7 cannot find scrutinee' % key)
        scrut = mm.group(1)
        conds = ' || '.join('slice_eq(%s, &[%s])' % (scrut, ', '.join('%du8' % v for v in bytestr_values(l))) for l in lits)
        out.append(text[pos:m.start()])
        out.append('%s_ if %s =>' % (m.group(1), conds))
        pos = m.end()
        n += 1
    out.append(text[pos:])
    if n:
        u.rules['R7'] += n
    return ''.join(out)


def r4_inline_typed_closure(name, required=True):
    """R4 for `let mut NAME = |P: T| { BODY };` : removed, calls `NAME(ARG)` -> `{ let P: T = ARG; BODY }`.
    Only the FIRST definition of NAME and the calls up to the next definition of the same name are treated
    (the lexer defines push_byte twice, in two different match arms)."""
    def rule(u, key, text):
        m = re.search(r'let\s+mut\s+%s\s*=\s*\|\s*(\w+)\s*:\s*(\w+)\s*\|\s*\{' % re.escape(name), text)
        if not m:
            if required:
                raise LostAnchor('%s: R4 closure `let mut %s = |x: T| {..}` not found' % (key, name))
            return text
        param, ty = m.group(1), m.group(2)
        rest = text[m.end() - 1:]
        toks = tokenize(rest)
        match = rsparse.match_brackets_lenient(toks)
        close = match[0]
        body = rest[toks[0].end:toks[close].start].strip()
        body = re.sub(r'\s+', ' ', body)
        if toks[close + 1].text != ';':
            raise LostAnchor('%s: R4 closure %s not terminated by ;' % (key, name))
        ls = text.rfind('\n', 0, m.start()) + 1
        le = m.end() - 1 + toks[close + 1].end
        head = text[:ls] + '\t\t\t\t/* R4: closure `%s` inlined at its call sites */' % name
        tail = text[le:]
        # region: up to the next `let ... NAME =` definition
        nxt = re.search(r'let\s+(?:mut\s+)?%s\s*=' % re.escape(name), tail)
        region_end = nxt.start() if nxt else len(tail)
        region, after = tail[:region_end], tail[region_end:]
        n = 0
        while True:
            mm = re.search(r'(?<![A-Za-z0-9_.])%s\s*\(' % re.escape(name), region)
            if not mm:
                break
            r2 = region[mm.end() - 1:]
            t2 = tokenize(r2)
            m2 = rsparse.match_brackets_lenient(t2)
            c2 = m2[0]
            arg = r2[t2[0].end:t2[c2].start].strip()
            region = region[:mm.start()] + '{ let %s: %s = %s; %s }' % (param, ty, arg, body) + region[mm.end() - 1 + t2[c2].end:]
            n += 1
        u.rules['R4'] += 1
        u.rules['R4-call-sites'] += n
        return head + region + after
    return rule


def r12_drop_noop_utf8_loop(u, key, text):
    """R12: in the string-literal arm `push_byte` is the no-op closure `let push_byte = |_byte: u8| {};` so the loop
           let mut buffer = [0; 4]; let slice = c.encode_utf8(&mut buffer); for &byte in slice.as_bytes() { push_byte(byte) }
    has no effect (encode_utf8 is unsupported by Verus).  The loop is dropped ONLY after checking that the no-op
    definition is the closest preceding definition of push_byte; otherwise the construct is left in place
    (and Verus rejects it -> undecided)."""
    pat = re.compile(r'let mut buffer = \[0; 4\];\s*let slice = c\.encode_utf8\(&mut buffer\);\s*for &byte in slice\.as_bytes\(\)\s*\{\s*push_byte\(byte\)\s*\}')
    out = text
    n = 0
    while True:
        m = pat.search(out)
        if not m:
            break
        defs = list(re.finditer(r'let\s+(mut\s+)?push_byte\s*=\s*\|[^|]*\|\s*\{([^}]*)\}\s*;', out[:m.start()]))
        if not defs or defs[-1].group(2).strip() != '':
            break
        out = out[:m.start()] + '/* R12: no-op utf8 push loop dropped (push_byte is `|_byte: u8| {}` here) */' + out[m.end():]
        n += 1
    if n:
        u.rules['R12'] += n
    return out


def strip_lifetimes(names):
    """drop named lifetimes that Verus infers (`<'source: 'tokens, ...>` on lex_source_into_buffer)"""
    def rule(u, key, text):
        head_end = text.index('{')
        head = text[:head_end]
        h2 = re.sub(r"<\s*'[a-z]+\s*(?::\s*'[a-z]+)?(?:\s*,\s*'[a-z]+\s*(?::\s*'[a-z]+)?)*\s*>", '', head, count=1)
        for nm in names:
            h2 = re.sub(r"&'%s\s+" % nm, '&', h2)
            h2 = re.sub(r"<'%s>" % nm, "<'_>", h2)
        if h2 != head:
            u.rules['lifetimes-elided'] += 1
        return h2 + text[head_end:]
    return rule
