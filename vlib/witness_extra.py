"""Single by-construction cases that each get their OWN obligation (bounded stand-ins; a recorded finding for one of them
must not hide another case): inputs whose verdict follows directly from the property statement and that exhibit, on the
pinned tree, defects of code no contract reaches (typer member/assignment typing, excess address, order of a named length
used behind a pointer)."""
from . import replayrun


def _codes(r):
    return [c for c in (r.get('result') or {}).get('errors', '[]').strip('[]').split(',') if c]


def _run(cases):
    out = []
    if replayrun.build()[0] is None:
        return out
    for sub, src, exp, why in cases:
        r = replayrun.run('alpha', src.encode(), timeout=20)
        if r.get('status') in ('timeout', 'build-failed', 'unknown'):
            continue
        codes = _codes(r)
        ok = (r.get('status') == 'ok') and ((codes == []) if exp == 'accept' else (exp.split(':')[1] in codes if ':' in exp else codes != []))
        if not ok:
            out.append((sub, {'mode': 'alpha', 'input_utf8_lossy': src, 'input_hex': src.encode().hex(), 'observed': r,
                              'expected': '%s: %s' % (why, exp), 'expect_verdict': exp,
                              'how': 'replay_runner alpha <file>: error codes of the first-generation pipeline without the LLVM generator'}))
    return out


C07_CASES = [
    ('structure literal member of another type',
     'struct Foo\n{\n\tx: i32,\n}\n\nfn main()\n{\n\tvar f: Foo = Foo { x: true };\n}\n', 'reject',
     'initialisation of a member of type i32 with a bool: both sides of an initialisation have the identical type'),
    ('structure literal member of another integer type',
     'struct Foo\n{\n\tx: i32,\n}\n\nfn main()\n{\n\tvar v: u8 = 1;\n\tvar f: Foo = Foo { x: v };\n}\n', 'reject',
     'initialisation of a member of type i32 with a u8 variable'),
    ('excess address on an argument',
     'fn foo(p: &i32)\n{\n}\n\nfn main()\n{\n\tvar x: i32 = 1;\n\tfoo(&&x);\n}\n', 'reject',
     'an argument &&x (pointer to pointer) for a parameter of type &i32: excess address'),
    ('well-typed assignment to an element of an array member',
     'struct S\n{\n\tarr: [4]i32,\n}\n\nfn main()\n{\n\tvar s: S = S { arr: [1, 2, 3, 4] };\n\ts.arr[2] = 7;\n}\n', 'accept',
     'assignment of an integer literal to an element of an [4]i32 member: a well-typed program is accepted'),
    ('well-typed assignment to a member of an array element',
     'struct P\n{\n\tx: i32,\n}\n\nfn main()\n{\n\tvar a: [2]P = [P { x: 1 }, P { x: 2 }];\n\tvar v: i32 = 7;\n\ta[1].x = v;\n}\n', 'accept',
     'assignment of an i32 variable to the i32 member of an array element: a well-typed program is accepted'),
    ('array view assigned to an array element',
     'fn foo(s: []i32)\n{\n\tvar a: [4]i32 = [1, 2, 3, 4];\n\ta[0] = s;\n}\n', 'reject',
     'assignment of an array view []i32 to an element of type i32: an ill-typed program is rejected with an error, not by a failed assertion'),
    ('array view assigned through a pointer',
     'fn foo(s: []i32)\n{\n\tvar x: i32 = 1;\n\tvar p: &i32 = &x;\n\t&p = s;\n}\n', 'reject',
     'assignment of an array view []i32 to a pointer variable: an ill-typed program is rejected with an error, not by a failed assertion'),
    ('index into something that is not an array, as an assignment target',
     'fn f()\n{\n\tvar x: i32 = 1;\n\tx[0] = 2;\n}\n', 'reject:501', 'an element of an i32 variable is assigned: rejected with E501, not by a failed assertion'),
    ('index into something that is not an array, as a value',
     'fn f()\n{\n\tvar x: i32 = 1;\n\tvar y: i32 = x[0];\n}\n', 'reject:501', 'an element of an i32 variable is read'),
    ('member of something that is not a structure, as an assignment target',
     'fn f()\n{\n\tvar x: i32 = 1;\n\tx.m = 2;\n}\n', 'reject:505', 'a member of an i32 variable is assigned'),
    ('array view assigned to an element behind a pointer to an array view',
     'fn foo(a: &[]i32, s: &[]i32)\n{\n\ta[0] = s;\n}\n', 'reject', 'an array view behind a pointer assigned to an element: rejected with an error, not by a panic'),
] + [
    (what, 'fn foo(p: &i32)\n{\n}\n\nfn bar(p: &&i32)\n{\n}\n\nfn parr(a: &[]i32)\n{\n}\n\nfn val(v: i32)\n{\n}\n\nfn byte(b: u8)\n{\n}\n\nfn main()\n{\n\tvar x: i32 = 1;\n\tvar p: &i32 = &x;\n\tvar q: &&i32 = &&p;\n\tvar c: char8 = \'a\';\n'
           '\tvar a: [3]i32 = [1, 2, 3];\n\t%s\n}\n' % stmt, exp, why)
    for what, stmt, exp, why in [
        ('two excess addresses on an argument', 'foo(&&&x);', 'reject', 'an argument &&&x for a parameter of type &i32'),
        ('excess address on a pointer-to-pointer argument', 'bar(&&&p);', 'reject', 'an argument &&&p (p: &i32) for a parameter of type &&i32'),
        ('excess address in an initial value', 'var r: &i32 = &&x;', 'reject', 'a declaration of type &i32 initialised with &&x'),
        ('excess address in an assigned value', '&p = &&x;', 'reject', 'the pointer p: &i32 assigned &&x'),
        ('excess address on an array argument', 'parr(&&a);', 'reject', 'an argument &&a (a: [3]i32) for a parameter of type &[]i32'),
        ('address of a variable as an argument', 'foo(&x);', 'accept', 'the address of an i32 variable for a parameter of type &i32'),
        ('a pointer variable as an argument', 'foo(&p);', 'accept', 'the pointer p: &i32 itself for a parameter of type &i32'),
        ('address of a pointer variable as an argument', 'bar(&&p);', 'accept', 'the address of the pointer p: &i32 for a parameter of type &&i32'),
        ('a pointer-to-pointer variable as an argument', 'bar(&&q);', 'accept', 'the pointer q: &&i32 itself for a parameter of type &&i32'),
        ('address of an array as an argument', 'parr(&a);', 'accept', 'the address of a [3]i32 for a parameter of type &[]i32'),
        ('missing address on a pointer-to-pointer argument', 'bar(&p);', 'reject:513', 'the pointer p: &i32 for a parameter of type &&i32'),
        ('address of a pointer for a pointer parameter', 'foo(&&p);', 'reject:512', 'the address of the pointer p: &i32 (a &&i32) for a parameter of type &i32'),
        ('a pointer for a value parameter', 'val(&x);', 'reject:512', 'the address of an i32 for a parameter of type i32'),
        ('a pointer to a char8 for a u8 parameter', 'byte(&c);', 'reject:512', 'the address of a char8 for a parameter of type u8'),
        ('a pointer variable for a value parameter', 'val(&p);', 'reject', 'the pointer p: &i32 for a parameter of type i32'),
    ]
] + [
    (what, 'struct S\n{\n\tarr: [4]i32,\n\tp: &i32,\n}\n\nfn foo(sl: []i32, s: S)\n{\n\tvar t: S = s;\n\t%s\n}\n' % stmt, exp, why)
    for what, stmt, exp, why in [
        ('array view assigned to an element of an array member', 't.arr[0] = sl;', 'reject:504', 'assignment of an array view to an element of a [4]i32 member'),
        ('array view assigned through a pointer member', 't.p = sl;', 'reject:504', 'assignment of an array view to the i32 behind a pointer member'),
        ('array view assigned to an array member', 't.arr = sl;', 'reject:504', 'assignment of an array view to a [4]i32 member'),
        ('array view assigned through a pointer member with an address', '&t.p = sl;', 'reject', 'assignment of an array view to a pointer member: rejected with an error, not by a failed assertion'),
    ]
] + [
    (what, 'word64 Position\n{\n\tx: i32,\n\ty: i32,\n}\n\nstruct Foo\n{\n\thead: &Position,\n\tarr: [4]i32,\n\tpts: [2]Position,\n}\n\nfn main()\n{\n'
           '\tvar a = Position { x: 1, y: 2 };\n\tvar b = Position { x: 3, y: 4 };\n\tvar foo = Foo { head: &a, arr: [1, 2, 3, 4], pts: [a, b] };\n\t%s\n}\n' % stmt, exp, why)
    for what, stmt, exp, why in [
        ('well-typed assignment through a pointer member', 'foo.head = b;', 'accept', 'assignment of a Position to the Position behind the pointer member head'),
        ('well-typed assignment of a word to an element of an array member', 'foo.pts[1] = b;', 'accept', 'assignment of a Position to an element of a [2]Position member'),
        ('well-typed assignment to a member of an element of an array member', 'foo.pts[1].x = 7;', 'accept', 'assignment of an integer to the i32 member of an element of a [2]Position member'),
        ('well-typed assignment of an array to an array member', 'foo.arr = [4, 3, 2, 1];', 'accept', 'assignment of an array literal to a [4]i32 member'),
        ('boolean assigned to an element of an integer array member', 'foo.arr[1] = true;', 'reject:504', 'assignment of a bool to an element of a [4]i32 member'),
        ('integer assigned to an element of an array-of-words member', 'foo.pts[1] = 5;', 'reject:504', 'assignment of an integer to an element of a [2]Position member'),
        ('word assigned to an element of an integer array member', 'foo.arr[1] = b;', 'reject:504', 'assignment of a Position to an element of a [4]i32 member'),
        ('integer assigned through a pointer-to-word member', 'foo.head = 5;', 'reject', 'assignment of an integer to the Position behind the pointer member head'),
    ]
]

C11_CASES = [
    ('structure with a pointer to an array of named length declared before the constant',
     'struct A\n{\n\tp: &[N]i32,\n}\n\nconst N: usize = 4;\n\nfn main()\n{\n}\n', 'accept',
     'the same declarations with the constant first are accepted: every permutation of the declarations is accepted or rejected alike'),
    ('structure with a pointer to an array of named length declared after the constant',
     'const N: usize = 4;\n\nstruct A\n{\n\tp: &[N]i32,\n}\n\nfn main()\n{\n}\n', 'accept',
     'control: constant first'),
]


def c07(deadline, rng, tier):
    return _run(C07_CASES)


def c11(deadline, rng, tier):
    return _run(C11_CASES)


ABI_PRIMS = ['i8', 'i16', 'i32', 'i64', 'i128', 'u8', 'u16', 'u32', 'u64', 'u128', 'usize', 'bool']
ABI_ALLOWED = {'i8', 'i16', 'i32', 'i64', 'u8', 'u16', 'u32', 'u64', 'usize'}     # docs/features.md, "Interoperability with C" (char8 is left out: the list does not name it)


def c11_extern(deadline, rng, tier):
    """one witness or None: every primitive type in every position of an extern signature, alone, behind a pointer and in an
    array view: accepted iff the documentation lists the type, else E358"""
    if replayrun.build()[0] is None:
        return None
    for t in ABI_PRIMS:
        lit = 'true' if t == 'bool' else '0'
        for what, src in [('parameter of a head', 'extern fn f(x: %s);\n' % t), ('return type of a head', 'extern fn f() -> %s;\n' % t),
                          ('parameter of a definition', 'extern fn f(x: %s)\n{\n}\n' % t),
                          ('return type of a definition', 'extern fn f() -> %s\n{\n\treturn: %s\n}\n' % (t, lit)),
                          ('element of an array view parameter', 'extern fn f(x: []%s);\n' % t), ('pointee of a pointer parameter', 'extern fn f(x: &%s);\n' % t),
                          ('pointee of a returned pointer', 'extern fn f() -> &%s;\n' % t)]:
            r = replayrun.run('alpha', src.encode(), timeout=20)
            if r.get('status') in ('timeout', 'build-failed', 'unknown'):
                continue
            codes = _codes(r)
            ok = r.get('status') == 'ok' and ((codes == []) if t in ABI_ALLOWED else ('358' in codes))
            if not ok:
                exp = 'accept' if t in ABI_ALLOWED else 'reject:358'
                return {'mode': 'alpha', 'input_utf8_lossy': src, 'input_hex': src.encode().hex(), 'observed': r,
                        'expected': '%s as %s of an extern function: %s (only array views, pointers and i8..i64, u8..u64, usize are part of the external ABI)' % (t, what, exp),
                        'expect_verdict': exp, 'how': 'replay_runner alpha <file>'}
    return None
