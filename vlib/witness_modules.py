"""Bounded stand-in for module composition (C12; expand() is not under contract): small module sets whose visibility
verdicts are known BY CONSTRUCTION from the property statement - an importer sees exactly the `pub` declarations of the
modules it imports itself (not private ones, not those of modules imported by its imports), in every order in which the
files are given, with paths resolved relative to the importing file.  Real pipeline through replay mode alphamulti."""
import itertools
import time
from . import replayrun

UTIL = ('pub fn pubf() -> i32\n{\n\treturn: 1\n}\n\nfn privf() -> i32\n{\n\treturn: 2\n}\n\n'
        'pub const PUBC: i32 = 10;\n\nconst PRIVC: i32 = 20;\n\n'
        'pub struct PubS\n{\n\tx: i32,\n}\n\nstruct PrivS\n{\n\tx: i32,\n}\n')


def user(imports, body, ret='i32'):
    return ''.join('import "%s";\n' % i for i in imports) + '\nfn main() -> %s\n{\n%s}\n' % (ret, body)


def scenarios():
    """(description, [(path, text)], {path: 'accept'|'reject'})"""
    out = []
    uses = {
        'calls the public function': ('\treturn: pubf()\n', 'accept'),
        'calls the private function': ('\treturn: privf()\n', 'reject'),
        'reads the public constant': ('\treturn: PUBC\n', 'accept'),
        'reads the private constant': ('\treturn: PRIVC\n', 'reject'),
        'uses the public structure': ('\tvar s: PubS = PubS { x: 1 };\n\treturn: s.x\n', 'accept'),
        'uses the private structure': ('\tvar s: PrivS = PrivS { x: 1 };\n\treturn: s.x\n', 'reject'),
    }
    for what, (body, exp) in uses.items():
        out.append(('direct import, importer %s' % what, [('util.pn', UTIL), ('main.pn', user(['util.pn'], body))], {'util.pn': 'accept', 'main.pn': exp}))
        # not imported at all: nothing is visible
        out.append(('no import, module %s' % what, [('util.pn', UTIL), ('main.pn', user([], body))], {'util.pn': 'accept', 'main.pn': 'reject'}))
    mid = 'import "util.pn";\n\npub fn midf() -> i32\n{\n\treturn: pubf() + PUBC\n}\n'
    out.append(('transitive: main imports mid only and calls mid\'s function', [('util.pn', UTIL), ('mid.pn', mid), ('main.pn', user(['mid.pn'], '\treturn: midf()\n'))],
                {'util.pn': 'accept', 'mid.pn': 'accept', 'main.pn': 'accept'}))
    out.append(('transitive: main imports mid only but calls util\'s function (imports are not re-exported)', [('util.pn', UTIL), ('mid.pn', mid), ('main.pn', user(['mid.pn'], '\treturn: pubf()\n'))],
                {'util.pn': 'accept', 'mid.pn': 'accept', 'main.pn': 'reject'}))
    out.append(('diamond: two modules and main all import util', [('util.pn', UTIL),
                ('double.pn', 'import "util.pn";\n\npub fn double() -> i32\n{\n\treturn: pubf() + pubf()\n}\n'),
                ('square.pn', 'import "util.pn";\n\npub fn square() -> i32\n{\n\treturn: pubf() * PUBC\n}\n'),
                ('main.pn', user(['util.pn', 'double.pn', 'square.pn'], '\treturn: double() + square() + pubf()\n'))],
                {'util.pn': 'accept', 'double.pn': 'accept', 'square.pn': 'accept', 'main.pn': 'accept'}))
    out.append(('path relative to the importing file', [('lib/util.pn', UTIL), ('lib/other.pn', 'import "util.pn";\n\npub fn other() -> i32\n{\n\treturn: pubf()\n}\n'),
                ('main.pn', user(['lib/other.pn'], '\treturn: other()\n'))], {'lib/util.pn': 'accept', 'lib/other.pn': 'accept', 'main.pn': 'accept'}))
    out.append(('a file whose path merely ends in the wanted name is not the wanted module', [('xutil.pn', UTIL), ('main.pn', user(['util.pn'], '\treturn: pubf()\n'))],
                {'xutil.pn': 'accept', 'main.pn': 'reject'}))
    out.append(('same file name in two directories: each importer gets its neighbour', [
        ('a/util.pn', 'pub fn which() -> i32\n{\n\treturn: 1\n}\n'), ('b/util.pn', 'pub fn other_which() -> i32\n{\n\treturn: 2\n}\n'),
        ('a/main.pn', user(['util.pn'], '\treturn: which()\n')), ('b/main.pn', user(['util.pn'], '\treturn: other_which()\n'))],
        {'a/util.pn': 'accept', 'b/util.pn': 'accept', 'a/main.pn': 'accept', 'b/main.pn': 'accept'}))
    out.append(('the same file imported twice by one importer', [('util.pn', UTIL), ('main.pn', user(['util.pn', 'util.pn'], '\treturn: pubf() + PUBC\n'))],
                {'util.pn': 'accept', 'main.pn': 'accept'}))
    out.append(('the same file imported under two spellings', [('src/util.pn', UTIL), ('src/main.pn', user(['src/util.pn', 'util.pn'], '\treturn: pubf()\n'))],
                {'src/util.pn': 'accept', 'src/main.pn': 'accept'}))
    out.append(('a public opaque structure is visible to the importer', [('lib.pn', 'pub struct Handle;\n\npub fn open() -> i32\n{\n\treturn: 1\n}\n'),
                ('main.pn', 'import "lib.pn";\n\nfn use(h: &Handle) -> i32\n{\n\treturn: open()\n}\n')], {'lib.pn': 'accept', 'main.pn': 'accept'}))
    out.append(('a private opaque structure is not', [('lib.pn', 'struct Handle;\n\npub fn open() -> i32\n{\n\treturn: 1\n}\n'),
                ('main.pn', 'import "lib.pn";\n\nfn use(h: &Handle) -> i32\n{\n\treturn: open()\n}\n')], {'lib.pn': 'accept', 'main.pn': 'reject'}))
    out.append(('an import written after other declarations counts like any other', [('util.pn', UTIL),
                ('main.pn', 'const K: i32 = 1;\n\nimport "util.pn";\n\nfn main() -> i32\n{\n\treturn: pubf() + K\n}\n')], {'util.pn': 'accept', 'main.pn': 'accept'}))
    out.append(('imports interleaved with declarations', [('util.pn', UTIL), ('mid.pn', 'pub fn midf() -> i32\n{\n\treturn: 3\n}\n'),
                ('main.pn', 'import "util.pn";\n\nconst K: i32 = 1;\n\nimport "mid.pn";\n\nfn main() -> i32\n{\n\treturn: pubf() + midf() + K\n}\n')],
                {'util.pn': 'accept', 'mid.pn': 'accept', 'main.pn': 'accept'}))
    for empty, what in (('', 'an empty file'), ('// nothing here yet\n', 'a file with only a comment')):
        out.append(('%s among the modules: everyone still gets exactly its own imports' % what, [('notes.pn', empty), ('util.pn', UTIL), ('main.pn', user(['util.pn'], '\treturn: pubf() + PUBC\n')),
                    ('other.pn', user([], '\treturn: pubf()\n'))], {'notes.pn': 'accept', 'util.pn': 'accept', 'main.pn': 'accept', 'other.pn': 'reject'}))
    out.append(('a module that imports nothing, given between an importer and its import, sees nothing of either', [('util.pn', UTIL),
                ('bystander.pn', 'fn pubf() -> i32\n{\n\treturn: 5\n}\n\nfn own() -> i32\n{\n\treturn: pubf()\n}\n'),
                ('main.pn', user(['util.pn'], '\treturn: pubf()\n')), ('top.pn', user(['main.pn'], '\treturn: 1\n'))],
                {'util.pn': 'accept', 'bystander.pn': 'accept', 'main.pn': 'accept', 'top.pn': 'accept'}))
    scale = 'pub fn scale(x: i32, factor: i32) -> i32\n{\n\treturn: x * factor\n}\n'
    out.append(('the parameter names of an imported function are no names of the importer: its own variables may have them',
                [('scale.pn', scale), ('main.pn', 'import "scale.pn";\n\nfn main() -> i32\n{\n\tvar factor: i32 = 2;\n\tvar x: i32 = 3;\n\treturn: scale(x, factor)\n}\n\nfn twice(x: i32) -> i32\n{\n\treturn: scale(x, 2)\n}\n')],
                {'scale.pn': 'accept', 'main.pn': 'accept'}))
    out.append(('the parameter names of an imported function are no names of the importer: it cannot use them',
                [('scale.pn', scale), ('main.pn', 'import "scale.pn";\n\nfn main() -> i32\n{\n\treturn: scale(1, 2) + factor\n}\n')],
                {'scale.pn': 'accept', 'main.pn': 'reject'}))
    out.append(('an imported function is called like a local one: an array is handed to its array-view parameter',
                [('sum.pn', 'pub fn sum(values: []i32) -> i32\n{\n\treturn: values[0]\n}\n'),
                 ('main.pn', 'import "sum.pn";\n\nfn main() -> i32\n{\n\tvar a: [3]i32 = [1, 2, 3];\n\treturn: sum(a)\n}\n')], {'sum.pn': 'accept', 'main.pn': 'accept'}))
    out.append(('an imported word is a word in the importer too: it can be a member of another word',
                [('half.pn', 'pub word32 Half\n{\n\ta: u16,\n\tb: u16,\n}\n'),
                 ('main.pn', 'import "half.pn";\n\nword64 Whole\n{\n\tlo: Half,\n\thi: Half,\n}\n\nfn main() -> i32\n{\n\treturn: 0\n}\n')], {'half.pn': 'accept', 'main.pn': 'accept'}))
    out.append(('an imported structure keeps its members',
                [('pt.pn', 'pub struct Pt\n{\n\tx: i32,\n\ty: i32,\n}\n\npub fn origin_x(p: Pt) -> i32\n{\n\treturn: p.x\n}\n'),
                 ('main.pn', 'import "pt.pn";\n\nfn main() -> i32\n{\n\tvar p: Pt = Pt { x: 1, y: 2 };\n\treturn: origin_x(p) + p.y\n}\n')], {'pt.pn': 'accept', 'main.pn': 'accept'}))
    out.append(('mutual imports', [('a.pn', 'import "b.pn";\n\npub fn fa() -> i32\n{\n\treturn: 1\n}\n'), ('b.pn', 'import "a.pn";\n\npub fn fb() -> i32\n{\n\treturn: fa()\n}\n')],
                {'a.pn': 'accept', 'b.pn': 'accept'}))
    return out


def render(files):
    return ''.join('//// FILE: %s\n%s' % (p, t if t.endswith('\n') else t + '\n') for p, t in files)


def check(files, expect, r):
    if r.get('status') in ('timeout', 'build-failed', 'unknown'):
        return None    # inconclusive run: never a mismatch
    if r.get('status') != 'ok':
        return 'pipeline %s: %s' % (r.get('status'), r.get('detail'))
    for i, (p, _t) in enumerate(files):
        codes = [c for c in r['result'].get('m%d' % i, '[]').strip('[]').split(',') if c]
        if expect[p] == 'accept' and codes:
            return 'module %s must be accepted, got errors %s' % (p, codes)
        if expect[p] == 'reject' and not codes:
            return 'module %s must be rejected (it refers to something it cannot see), got no error' % p
    return None


def search(deadline, rng, max_orders=6):
    if replayrun.build()[0] is None:
        return None
    for what, files, expect in scenarios():
        orders = list(itertools.permutations(files))
        rng.shuffle(orders)
        for order in orders[:max_orders]:
            if time.time() > deadline:
                return None
            src = render(order)
            r = replayrun.run('alphamulti', src.encode(), timeout=30)
            m = check(order, expect, r)
            if m:
                return {'mode': 'alphamulti', 'input_utf8_lossy': src, 'input_hex': src.encode().hex(), 'observed': r,
                        'expected': '%s; file order %s: %s' % (what, ' '.join(p for p, _ in order), m),
                        'expect_modules': {'files': [p for p, _ in order], 'verdicts': expect},
                        'how': 'replay_runner alphamulti <file>: sections `//// FILE: path`, expanded together, error codes per module'}
    return None


def replay_ok(w, r):
    files = [(p, '') for p in w['expect_modules']['files']]
    return check(files, w['expect_modules']['verdicts'], r) is None
