"""Extra work of the thorough tier: Z3-seed stability sweep, rule-validation harness, differential sweeps with the replay runner.
None of this decides a property (the verifier's verdict does); everything is recorded in the evidence."""
import random
import time

from . import verus


def run(pid, units, results, seed):
    out = {'stability': {}}
    for u in units:
        r = results[u]
        if not r.gen_path or r.status != 'ok' or not r.gen_path.endswith('.rs') or 'kani' in r.gen_path:
            continue
        flips = []
        runs = []
        rl = None
        try:
            import importlib
            rl = getattr(importlib.import_module('units.' + u.lower().replace('-', '_')), 'RLIMIT', None)
        except Exception:
            pass
        for k in range(3):
            s = ((seed or 1) * 7919 + k * 104729 + 17) % 100000
            vr = verus.run(r.gen_path, rl, 8, 1, s)
            ok = bool(vr['json'] and vr['json']['verification-results'].get('success'))
            runs.append({'z3_seed': s, 'success': ok, 'wall': round(vr['wall'], 2)})
            if not ok:
                gm = verus.GenMap(open(r.gen_path).read())
                f, t, rlh = verus.classify(vr, gm)
                flips += [x['fn'] for x in f] + [x['fn'] for x in rlh]
        out['stability'][u] = {'runs': runs, 'unstable_functions': sorted(set(flips))}
    try:
        from . import rulecheck
        out['rule_validation'] = rulecheck.run()
    except Exception as e:
        out['rule_validation'] = {'status': 'error', 'detail': str(e)[:300]}
    # differential sweeps on the tree as it is (recorded, never an alarm: only the verifier decides)
    sweeps = {}
    try:
        from . import witness, witness_alpha, witness_header
        rng = random.Random(seed or 1)
        if any(u in witness.DELTA_UNITS for u in units):
            t0 = time.time()
            w = witness.search(pid, 'U-PARSE', {}, 'thorough', seed)
            sweeps['delta_crash_search'] = {'seconds': round(time.time() - t0, 1), 'failing_input': w}
        if 'U-LABEL' in units:
            t0 = time.time()
            sweeps['label_scoping_differential'] = {'failing_input': witness_alpha.search_labels(time.time() + 60, rng), 'seconds': round(time.time() - t0, 1)}
        if 'U-SYN' in units:
            t0 = time.time()
            sweeps['placement_differential'] = {'failing_input': witness_alpha.search_syntax(time.time() + 60, rng), 'seconds': round(time.time() - t0, 1)}
        if pid == 'C07':
            from . import witness_types
            t0 = time.time()
            sweeps['type_rules_by_construction'] = {'failing_input': witness_types.search(time.time() + 90, rng), 'seconds': round(time.time() - t0, 1)}
        if pid == 'C11':
            from . import witness_layout
            t0 = time.time()
            sweeps['word_layout_by_construction'] = {'failing_input': witness_layout.search(time.time() + 90, rng), 'seconds': round(time.time() - t0, 1)}
        if pid == 'C08':
            from . import witness_mut
            t0 = time.time()
            sweeps['mutability_by_construction'] = {'failing_input': witness_mut.search(time.time() + 90, rng), 'seconds': round(time.time() - t0, 1)}
        if 'U-LEXA' in units:
            from . import witness_lexa
            t0 = time.time()
            sweeps['alpha_lexer_tokens_by_construction'] = {'failing_input': witness_lexa.search(time.time() + 90, rng), 'seconds': round(time.time() - t0, 1)}
        if pid == 'C17':
            t0 = time.time()
            sweeps['header_differential'] = {'failing_input': witness_header.search(time.time() + 60, rng), 'seconds': round(time.time() - t0, 1)}
    except Exception as e:
        sweeps['error'] = str(e)[:300]
    out['differential_sweeps'] = sweeps
    return out
