"""Extra work of the thorough tier (stability sweep etc.)."""
from . import engine, verus
import os


def run(pid, units, results, seed):
    out = {'stability': {}}
    for u in units:
        r = results[u]
        if not r.gen_path or r.status != 'ok':
            continue
        flips = []
        runs = []
        for k in range(3):
            s = (seed or 1) * 7919 + k * 104729 + 17
            vr = verus.run(r.gen_path, None, 8, 1, s % 100000)
            ok = bool(vr['json'] and vr['json']['verification-results'].get('success'))
            runs.append({'z3_seed': s % 100000, 'success': ok, 'wall': round(vr['wall'], 2)})
            if not ok:
                gm = verus.GenMap(open(r.gen_path).read())
                f, t, rl = verus.classify(vr, gm)
                flips += [x['fn'] for x in f] + [x['fn'] for x in rl]
        out['stability'][u] = {'runs': runs, 'unstable_functions': sorted(set(flips))}
    return out
