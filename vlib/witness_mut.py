"""Witness search for the mutability rule (C08): a mutating use (assignment, or taking an address that is handed to a
callee which writes through it) of a target whose mutability is known BY CONSTRUCTION, placed in every kind of context.
Expected verdict from the property statement: rejected with E530 exactly when the target is not a `var` and is not reached
through an explicitly passed pointer.  Runs the real first-generation pipeline (replay runner, mode alpha)."""
import time
from . import replayrun

PRELUDE = ('fn g(p: &i32) -> i32\n{\n\tp = 2;\n\treturn: p\n}\n\n'
           'fn h(v: i32) -> i32\n{\n\treturn: v\n}\n\n'
           'fn k(p: &i32)\n{\n\tp = 2;\n}\n\n'
           'fn gu(p: &i32) -> usize\n{\n\tp = 2;\n\treturn: 0\n}\n\n'
           'struct Handle\n{\n\ttarget: &i32,\n}\n\nfn poke(hd: Handle)\n{\n\thd.target = 2;\n}\n\n'
           'const K: i32 = 1;\n\n')

# name: (parameter list, local declarations, place expression, mutable?)
TARGETS = {
    'value parameter': ('a: i32', '', 'a', False),
    'var': ('', '\tvar x: i32 = 1;\n', 'x', True),
    'constant': ('', '', 'K', False),
    'pointer parameter': ('q: &i32', '', 'q', True),
    'element of an array view parameter': ('s: []i32', '', 's[0]', False),
    'element of a pointer-to-view parameter': ('s: &[]i32', '', 's[0]', True),
    'element of a var array': ('', '\tvar s: [3]i32 = [1, 2, 3];\n', 's[0]', True),
}

# contexts for the expression E = g(&PLACE); `ret` contexts change the signature
CONTEXTS = {
    'initialiser': ('', '\tvar r = E;\n', ''),
    'assignment right-hand side': ('', '\tvar r: i32 = 0;\n\tr = E;\n', ''),
    'return value': (' -> i32', '', '\treturn: E\n'),
    'argument of another call': ('', '\tvar r = h(E);\n', ''),
    'operand': ('', '\tvar r = E + 1;\n', ''),
    'if condition': ('', '\tif E == 2\n\t{\n\t\tgoto end;\n\t}\n\tend:\n', ''),
    'nested block': ('', '\t{\n\t\t{\n\t\t\tvar r = E;\n\t\t}\n\t}\n', ''),
    'array literal element': ('', '\tvar r: [2]i32 = [E, 1];\n', ''),
    'then branch': ('', '\tvar c: i32 = 1;\n\tif c == 1\n\t{\n\t\tvar r = E;\n\t}\n', ''),
    'else branch': ('', '\tvar c: i32 = 1;\n\tif c == 1\n\t{\n\t\tc = 2;\n\t}\n\telse\n\t{\n\t\tvar r = E;\n\t}\n', ''),
    'argument of call in return value': (' -> i32', '', '\treturn: h(E)\n'),
    # EU = gu(&PLACE), a call that returns a usize
    'index of an element that is read': ('', '\tvar t: [3]i32 = [1, 2, 3];\n\tvar r: i32 = t[EU];\n', ''),
    'index of an element that is assigned': ('', '\tvar t: [3]i32 = [1, 2, 3];\n\tt[EU] = 1;\n', ''),
    'index of an element passed as an argument': ('', '\tvar t: [3]i32 = [1, 2, 3];\n\tvar r = h(t[EU]);\n', ''),
}


def cases():
    out = []
    for tn, (params, locs, place, mutable) in TARGETS.items():
        exp = 'accept' if mutable else 'reject:530'
        out.append(('%sfn f(%s)\n{\n%s\t%s = 5;\n}\n' % (PRELUDE, params, locs, place), exp, 'assignment to %s' % tn))
        if '[' in place:
            continue   # the address of an element is not part of the by-construction family (index typing rules interfere)
        out.append(('%sfn f(%s)\n{\n%s\tk(&%s);\n}\n' % (PRELUDE, params, locs, place), exp, 'address of %s passed to a writing callee (statement call)' % tn))
        out.append(('%sfn f(%s)\n{\n%s\tvar hd: Handle = Handle { target: &%s };\n\tpoke(hd);\n}\n' % (PRELUDE, params, locs, place), exp,
                    'address of %s stored in a structure literal that is handed to a writing callee' % tn))
        for cn, (ret, body, tail) in CONTEXTS.items():
            e, eu = 'g(&%s)' % place, 'gu(&%s)' % place
            fill = lambda t, a, b: t.replace('EU', '\x00').replace('E', a).replace('\x00', b)
            src = '%sfn f(%s)%s\n{\n%s%s%s}\n' % (PRELUDE, params, ret, locs, fill(body, e, eu), fill(tail, e, eu))
            out.append((src, exp, 'address of %s passed to a writing callee, in: %s' % (tn, cn)))
            if tn == 'var':
                # the address must be EXPLICIT: the same call without `&` is rejected wherever it stands
                src = '%sfn f(%s)%s\n{\n%s%s%s}\n' % (PRELUDE, params, ret, locs, fill(body, 'g(%s)' % place, 'gu(%s)' % place), fill(tail, 'g(%s)' % place, 'gu(%s)' % place))
                out.append((src, 'reject:513', 'a var passed WITHOUT & to a pointer parameter, in: %s' % cn))
    return out


AGG = ('fn g(s: []i32) -> i32\n{\n\treturn: 1\n}\n\nfn h2(x: i32, s: []i32) -> i32\n{\n\treturn: x\n}\n\n'
       'struct W\n{\n\tn: i32,\n\tarr: [3]i32,\n}\n\nstruct P\n{\n\tx: i32,\n}\n\n')
A3 = '\tvar a: [3]i32 = [1, 2, 3];\n'


def aggregate_cases():
    """whole arrays, views and structs cannot be copied by assignment (E531-E533); handing an array to a view parameter is
    not a copy - also when the copy and the call share one statement"""
    c = []
    add = lambda body, exp, what, params='': c.append(('%sfn f(%s)\n{\n%s}\n' % (AGG, params, body), exp, what))
    add(A3 + '\tvar b: [3]i32 = [4, 5, 6];\n\tb = a;\n', 'reject:531', 'whole array copied by assignment')
    add(A3 + '\tvar b: [3]i32 = a;\n', 'reject:531', 'whole array copied by initialisation')
    add('\tvar p: P = P { x: 1 };\n\tvar q: P = P { x: 2 };\n\tq = p;\n', 'reject:533', 'whole struct copied by assignment')
    add('\tvar t: []i32 = s;\n', 'reject:532', 'array view copied by initialisation', 's: []i32')
    add(A3 + '\tvar r: i32 = g(a);\n', 'accept', 'array handed to a view parameter')
    add(A3 + '\tvar r: i32 = g(a) + g(a);\n', 'accept', 'array handed to view parameters twice in one expression')
    add(A3 + '\tvar r: i32 = h2(g(a), a);\n', 'accept', 'array handed to a view parameter next to a nested call')
    add(A3 + '\tvar k: [2]i32 = [g(a), 5];\n', 'accept', 'call with an array argument inside an array literal')
    add(A3 + '\tvar b: [2][3]i32 = [a, a];\n', 'reject:531', 'whole array copied into an array literal')
    add(A3 + '\tvar w: W = W { n: g(a), arr: a };\n', 'reject:531', 'whole array copied into a structure literal after a call in the same statement')
    add(A3 + '\tvar w: W = W { arr: a, n: g(a) };\n', 'reject:531', 'whole array copied into a structure literal before a call in the same statement')
    add(A3 + '\tvar b: [3]i32 = [4, 5, 6];\n\tvar r: i32 = g(a);\n\tb = a;\n', 'reject:531', 'whole array copied in the statement after a call')
    add(A3 + '\tvar b: [2][3]i32 = [[0, 0, 0], [0, 0, 0]];\n\tvar r: i32 = h2(g(a), a);\n\tb[g(a)] = a;\n', 'reject:531', 'whole array copied into an element selected by a call')
    NEST = '\tvar m: [2][3]i32 = [[1, 2, 3], [4, 5, 6]];\n\tvar row: [3]i32 = [0, 0, 0];\n\tvar w: W = W { n: 1, arr: [1, 2, 3] };\n'
    add(NEST + '\trow = m[1];\n', 'reject:531', 'a whole array reached through an index is copied by assignment')
    add(NEST + '\trow = w.arr;\n', 'reject:531', 'a whole array member is copied by assignment')
    add(NEST + '\tvar r2: [3]i32 = m[0];\n', 'reject:531', 'a whole array reached through an index is copied by initialisation')
    add(NEST + '\tvar e: i32 = m[1][2] + w.arr[0];\n', 'accept', 'single elements of nested aggregates are read')
    SL = '\tvar alice = "Alice";\n\tvar x: []char8 = format!("Hello ", alice);\n'
    add(SL + '\tvar n: usize = |x|;\n', 'accept', 'a local slice is read')
    add(SL + '\tx = format!("Bye ", alice);\n', 'reject:530', 'a local slice (a view, not a var of its own) is reassigned')
    add(SL + "\tx[0] = 'J';\n", 'reject:530', 'an element is written through a local slice (a view)')
    # elements and members of constants and of by-value word parameters live in the storage of an immutable base
    AG = ('struct P\n{\n\tx: i32,\n}\n\nword64 W\n{\n\ta: u32,\n\tb: u32,\n}\n\nconst TABLE: [3]i32 = [1, 2, 3];\nconst ORIGIN: P = P { x: 1 };\n\n'
          'fn k(p: &i32)\n{\n\tp = 2;\n}\n\n')
    add2 = lambda body, exp, what, params='': c.append(('%sfn f(%s)\n{\n%s}\n' % (AG, params, body), exp, what))
    add2('\tTABLE[1] = 5;\n', 'reject:530', 'assignment to an element of a constant array')
    add2('\tORIGIN.x = 5;\n', 'reject:530', 'assignment to a member of a constant structure')
    add2('\tk(&ORIGIN.x);\n', 'reject:530', 'address of a member of a constant structure handed to a writing callee')
    add2('\tw.a = 5;\n', 'reject:530', 'assignment to a member of a by-value word parameter', 'w: W')
    add2('\tvar q: u32 = w.a;\n', 'accept', 'a member of a by-value word parameter is read', 'w: W')
    add2('\tvar p: P = P { x: 1 };\n\tp.x = 5;\n', 'accept', 'assignment to a member of a var structure')
    c.append(('const X: i32 = 0;\nconst ADDR: &i32 = &X;\n\nfn f()\n{\n\tADDR = 5;\n}\n', 'reject', 'a write through a constant that holds the address of another constant'))
    return c


def verdict_ok(exp, r):
    if r.get('status') in ('timeout', 'build-failed', 'unknown'):
        return True    # inconclusive run (machine load, tool failure): never a mismatch
    if r.get('status') != 'ok':
        return False
    codes = [c for c in r['result'].get('errors', '[]').strip('[]').split(',') if c]
    if exp == 'accept':
        return codes == []
    if ':' not in exp:
        return codes != []
    return exp.split(':')[1] in codes


def search(deadline, rng):
    if replayrun.build()[0] is None:
        return None
    import concurrent.futures as cf
    cs = cases() + aggregate_cases()
    rng.shuffle(cs)

    def one(c):
        if time.time() > deadline:
            return None
        r = replayrun.run('alpha', c[0].encode(), timeout=20)
        return None if verdict_ok(c[1], r) else (c, r)

    with cf.ThreadPoolExecutor(12) as ex:
        for hit in ex.map(one, cs):
            if hit:
                (src, exp, what), r = hit
                return {'mode': 'alpha', 'input_utf8_lossy': src, 'input_hex': src.encode().hex(), 'observed': r,
                        'expected': '%s: %s (accept = no error; reject:530 = E530 among the reported codes)' % (what, exp),
                        'expect_verdict_mut': exp,
                        'how': 'replay_runner alpha <file>: error codes of the first-generation pipeline without the LLVM generator'}
    return None
