"""Witness search for the mutability rule (C08): a mutating use (assignment, or taking an address that is handed to a
callee which writes through it) of a target whose mutability is known BY CONSTRUCTION, placed in every kind of context.
Expected verdict from the property statement: rejected with E530 exactly when the target is not a `var` and is not reached
through an explicitly passed pointer.  Runs the real first-generation pipeline (replay runner, mode alpha)."""
import time
from . import replayrun

PRELUDE = ('fn g(p: &i32) -> i32\n{\n\tp = 2;\n\treturn: p\n}\n\n'
           'fn h(v: i32) -> i32\n{\n\treturn: v\n}\n\n'
           'fn k(p: &i32)\n{\n\tp = 2;\n}\n\n'
           'const K: i32 = 1;\n\n')

# name: (parameter list, local declarations, place expression, mutable?)
TARGETS = {
    'value parameter': ('a: i32', '', 'a', False),
    'var': ('', '\tvar x: i32 = 1;\n', 'x', True),
    'constant': ('', '', 'K', False),
    'pointer parameter': ('q: &i32', '', 'q', True),
    'element of an array view parameter': ('s: []i32', '', 's[0]', False),
    'element of a pointer-to-view parameter': ('s: &[]i32', '', 's[0]', True),
    'element of a var array': ('', '\tvar s: [3]i32 = [1, 2, 3];\n', 's[0]', True),
}

# contexts for the expression E = g(&PLACE); `ret` contexts change the signature
CONTEXTS = {
    'initialiser': ('', '\tvar r = E;\n', ''),
    'assignment right-hand side': ('', '\tvar r: i32 = 0;\n\tr = E;\n', ''),
    'return value': (' -> i32', '', '\treturn: E\n'),
    'argument of another call': ('', '\tvar r = h(E);\n', ''),
    'operand': ('', '\tvar r = E + 1;\n', ''),
    'if condition': ('', '\tif E == 2\n\t{\n\t\tgoto end;\n\t}\n\tend:\n', ''),
    'nested block': ('', '\t{\n\t\t{\n\t\t\tvar r = E;\n\t\t}\n\t}\n', ''),
    'array literal element': ('', '\tvar r: [2]i32 = [E, 1];\n', ''),
    'then branch': ('', '\tvar c: i32 = 1;\n\tif c == 1\n\t{\n\t\tvar r = E;\n\t}\n', ''),
    'else branch': ('', '\tvar c: i32 = 1;\n\tif c == 1\n\t{\n\t\tc = 2;\n\t}\n\telse\n\t{\n\t\tvar r = E;\n\t}\n', ''),
    'argument of call in return value': (' -> i32', '', '\treturn: h(E)\n'),
}


def cases():
    out = []
    for tn, (params, locs, place, mutable) in TARGETS.items():
        exp = 'accept' if mutable else 'reject:530'
        out.append(('%sfn f(%s)\n{\n%s\t%s = 5;\n}\n' % (PRELUDE, params, locs, place), exp, 'assignment to %s' % tn))
        if '[' in place:
            continue   # the address of an element is not part of the by-construction family (index typing rules interfere)
        out.append(('%sfn f(%s)\n{\n%s\tk(&%s);\n}\n' % (PRELUDE, params, locs, place), exp, 'address of %s passed to a writing callee (statement call)' % tn))
        for cn, (ret, body, tail) in CONTEXTS.items():
            e = 'g(&%s)' % place
            src = '%sfn f(%s)%s\n{\n%s%s%s}\n' % (PRELUDE, params, ret, locs, body.replace('E', e), tail.replace('E', e))
            out.append((src, exp, 'address of %s passed to a writing callee, in: %s' % (tn, cn)))
    return out


def verdict_ok(exp, r):
    if r.get('status') in ('timeout', 'build-failed', 'unknown'):
        return True    # inconclusive run (machine load, tool failure): never a mismatch
    if r.get('status') != 'ok':
        return False
    codes = [c for c in r['result'].get('errors', '[]').strip('[]').split(',') if c]
    if exp == 'accept':
        return codes == []
    return exp.split(':')[1] in codes


def search(deadline, rng):
    if replayrun.build()[0] is None:
        return None
    import concurrent.futures as cf
    cs = cases()
    rng.shuffle(cs)

    def one(c):
        if time.time() > deadline:
            return None
        r = replayrun.run('alpha', c[0].encode(), timeout=20)
        return None if verdict_ok(c[1], r) else (c, r)

    with cf.ThreadPoolExecutor(12) as ex:
        for hit in ex.map(one, cs):
            if hit:
                (src, exp, what), r = hit
                return {'mode': 'alpha', 'input_utf8_lossy': src, 'input_hex': src.encode().hex(), 'observed': r,
                        'expected': '%s: %s (accept = no error; reject:530 = E530 among the reported codes)' % (what, exp),
                        'expect_verdict_mut': exp,
                        'how': 'replay_runner alpha <file>: error codes of the first-generation pipeline without the LLVM generator'}
    return None
