"""Bounded stand-in for the recursion depth of the second-generation front end (C15; "unbounded stack" is an assumption of
the proof of the parser, and the XML printer is outside the dialect): valid programs of a few KiB whose nesting depth or
list length is large.  Each shape is its own obligation, so that the recorded findings (stack overflow in the recursive
descent parser, D4, and in the recursive list printer, D17) do not hide a new one."""
import time
from . import replayrun

N = 3000


def gen(spec, n=None):
    n = n or spec.get('n', N)
    return (spec['prefix'] + spec['open'] * n + spec.get('mid', '') + spec.get('close', '') * n + spec['suffix']).encode()


# shape -> (generator spec, stage that is exercised: 'deltaparse' = lex+parse+header, 'delta' = the same plus the XML dumps)
SHAPES = {
    'parenthesised expression': dict(prefix='fn main() { var x = ', open='(', mid='1', close=')', suffix='; }'),
    'nested blocks': dict(prefix='fn main() ', open='{', mid='', close='}', suffix=''),
    'nested if statements': dict(prefix='fn main() { ', open='if a == 1 { ', mid='', close='}', suffix=' }'),
    'nested array literals': dict(prefix='fn main() { var x = ', open='[', mid='1', close=']', suffix='; }'),
    'nested calls': dict(prefix='fn main() { var x = ', open='f(', mid='1', close=')', suffix='; }'),
    'nested index expressions': dict(prefix='fn main() { var x = ', open='a[', mid='1', close=']', suffix='; }'),
    'nested structure literals': dict(prefix='fn main() { var x = ', open='S { a: ', mid='1', close=' }', suffix='; }'),
    'else-if chain': dict(prefix='fn main() { if a == 0 { } ', open='else if a == 1 { } ', mid='', close='', suffix='}'),
    'left-associative operator chain': dict(prefix='fn main() { var x = 1', open=' + 1', mid='', close='', suffix='; }'),
    'long statement list': dict(prefix='fn main() { ', open='x = 1; ', mid='', close='', suffix='}'),
    'long parameter list': dict(prefix='fn f(', open='a: i32, ', mid='', close='', suffix='b: i32) { }'),
    'long array literal': dict(prefix='fn main() { var x = [', open='1, ', mid='', close='', suffix='1]; }'),
    'many declarations': dict(prefix='', open='fn f() { }\n', mid='', close='', suffix=''),
    'nested pointer types': dict(prefix='fn f(a: ', open='&', mid='i32', close='', suffix=') { }'),
    'nested array types': dict(prefix='fn f(a: ', open='[]', mid='i32', close='', suffix=') { }'),
    'long string concatenation': dict(prefix='fn main() { var x = ', open='"a" ', mid='', close='', suffix='; }'),
}


def search_all(deadline, rng, tier='quick'):
    """list of (sub-obligation, witness) for every shape/stage that crashes"""
    out = []
    if replayrun.build()[0] is None:
        return out
    for shape, spec in SHAPES.items():
        for mode, stage in (('deltaparse', 'lexing, parsing, header extraction'), ('delta', 'XML dumps')):
            if time.time() > deadline:
                return out
            data = gen(spec)
            r = replayrun.run(mode, data, timeout=60)
            if r.get('status') in ('crash', 'panic'):
                out.append(('%s: %s' % (stage, shape), {
                    'mode': mode, 'input_gen': dict(spec, n=N), 'input_utf8_lossy': data[:200].decode() + ' ... (%d bytes)' % len(data), 'observed': r,
                    'expected': 'a valid module of %d bytes (%s, %d levels/items) goes through %s without a crash' % (len(data), shape, N, stage),
                    'how': 'replay_runner %s <file>; the input is prefix + open*n + mid + close*n + suffix of input_gen' % mode}))
                if mode == 'deltaparse':
                    break     # the XML stage cannot be reached when the parser already crashes
    return out


# ---- large well-formed modules ("every well-formed module is accepted without diagnostics", up to the 256 KiB of the property)
LARGE = {
    'small functions': 'fn f(a: i32) -> i32\n{\n\tvar x = a + 1;\n\treturn: x\n}\n\n',
    'commented constants': '// a constant with a comment in front of it\nconst LIMIT_OF_SOMETHING: usize = 0x10_00;\n',
    'structures': 'struct Pair\n{\n\tfirst: i32,\n\tsecond: &[]u8,\n}\n\n',
    'dense statements': 'fn g()\n{\n\tvar a = 1;\n\ta = a + a * a;\n}\n',     # 18 tokens in 38 bytes: 0.47 per byte, below the budget of 0.5
}


def search_large(deadline, rng):
    """one witness or None: modules of 100, 150, 200 and 250 KiB built by repeating a well-formed declaration (between 0.15 and 0.47
    tokens per byte, so below the lexer's budget of one token per two bytes; up to ~120000 tokens) are accepted by lexer and parser"""
    if replayrun.build()[0] is None:
        return None
    for what, unit in LARGE.items():
        for kib in (100, 150, 200, 250):
            if time.time() > deadline:
                return None
            n = kib * 1024 // len(unit)
            spec = dict(prefix='', open=unit, mid='', close='', suffix='', n=n)
            data = gen(spec)
            r = replayrun.run('deltaparse', data, timeout=60)
            if r.get('status') in ('timeout', 'build-failed', 'unknown'):
                continue
            if r.get('status') != 'ok' or r['result'].get('lex_errors') != '0' or r['result'].get('parse_errors') != '0':
                return {'mode': 'deltaparse', 'input_gen': spec, 'input_utf8_lossy': data[:160].decode() + ' ... (%d bytes, %d copies)' % (len(data), n), 'observed': r,
                        'expected': 'a well-formed module of %d bytes (%d copies of %s) is accepted without diagnostics' % (len(data), n, what),
                        'expect_result': {'lex_errors': '0', 'parse_errors': '0'},
                        'how': 'replay_runner deltaparse <file>; the input is `open` repeated n times (input_gen)'}
    return None
