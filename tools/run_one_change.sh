#!/bin/sh
# usage: tools/run_one_change.sh <dir of a stored change> <BENIGN|SEED> : one line "<kind> <name> :: <verdict lines>"
d=$1; kind=$2; n=$(basename $d); p=${n%-*}
r=$(/verif/tools/try_seed.sh $d $p 2>&1 | grep -E "^VIOLATION|^UNDEC|^OK|^exit" | tr '\n' ' ' | cut -c1-260)
echo "$kind $n :: $r"
