#!/usr/bin/env python3
"""setup_cmd: nothing to build (Python stdlib + pre-installed verus/kani); warms the Verus cache and checks tools."""
import subprocess, sys, os, tempfile
HERE = os.path.dirname(os.path.dirname(os.path.abspath(__file__)))
os.makedirs(os.path.join(HERE, '.work'), exist_ok=True)
p = os.path.join(HERE, '.work', 'warm.rs')
open(p, 'w').write('use vstd::prelude::*;\nverus!{ proof fn t() ensures 1 + 1 == 2int {} }\nfn main(){}\n')
r = subprocess.run(['verus', p], capture_output=True, text=True, cwd=os.path.join(HERE, '.work'))
print(r.stdout.strip()[-200:])
if r.returncode != 0:
    print(r.stderr[-500:])
    sys.exit(1)
# pre-build the replay runner (scratch crate with a path dependency on /repo); checks rebuild it incrementally on every run
sys.path.insert(0, HERE)
try:
    from vlib import replayrun
    exe, err = replayrun.build()
    print('replay runner:', exe or ('build failed: ' + err[-300:]))
except Exception as e:
    print('replay runner not prebuilt:', e)
