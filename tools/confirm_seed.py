#!/usr/bin/env python3
"""usage: confirm_seed.py <pid> <k> [<worktree> <outdir of the sub-agent> <number to store under>]  - re-confirms a seeded change produced by a sub-agent in its scratch worktree:
builds, baseline tests still pass, demo passes without and fails with the change; then runs the /verif check against it
(applied to /repo and undone) and stores everything under /verif/seeded/<pid>-<k>/."""
import sys, os, subprocess, json, shutil, re
pid, k = sys.argv[1], sys.argv[2]
W = sys.argv[3] if len(sys.argv) > 3 else '/tmp/seed_%s' % pid
DD = sys.argv[4] if len(sys.argv) > 4 else '/tmp/seedout_%s' % pid
D = '%s/%s' % (DD, k)
OUT = '/verif/seeded/%s-%s' % (pid, sys.argv[5] if len(sys.argv) > 5 else k)
env = dict(os.environ, CARGO_NET_OFFLINE='true', CARGO_TARGET_DIR='%s/target' % DD)

def sh(cmd, cwd=None, timeout=1800):
    p = subprocess.run(cmd, shell=True, cwd=cwd, env=env, capture_output=True, text=True, timeout=timeout)
    return p.returncode, (p.stdout + p.stderr)

def demo():
    rc, out = sh('cargo run --offline -q 2>&1 | tail -15', cwd=os.path.join(D, 'demo'))
    # cargo run's exit code is lost by the pipe; rerun cheaply for the code
    rc2, _ = sh('cargo run --offline -q >/dev/null 2>&1', cwd=os.path.join(D, 'demo'))
    return rc2, out

res = {'property': pid, 'seed': k}
sh('git checkout -- . && git clean -fdq -e target', cwd=W)
rc0, out0 = demo()
res['demo_without_change'] = {'exit': rc0, 'tail': out0[-600:]}
rc, out = sh('git apply %s/patch.diff' % D, cwd=W)
res['patch_applies'] = rc == 0
rc, out = sh('cargo build --offline 2>&1 | tail -3', cwd=W)
rcb, _ = sh('cargo build --offline >/dev/null 2>&1', cwd=W)
res['builds'] = rcb == 0
rc, out = sh('/tmp/seed_common/check_tests.sh %s' % W)
res['baseline_tests'] = out.strip().split('\n')[-1]
rc1, out1 = demo()
res['demo_with_change'] = {'exit': rc1, 'tail': out1[-600:]}
sh('git checkout -- . && git clean -fdq -e target', cwd=W)
res['confirmed'] = bool(res['patch_applies'] and res['builds'] and 'none - OK' in res['baseline_tests'] and rc0 == 0 and rc1 != 0)
# run our check
rc, out = sh('/verif/tools/try_seed.sh %s %s' % (D, pid))
res['check_output'] = out[-1500:]
m = re.search(r'exit=(\d+)', out)
res['check_exit'] = int(m.group(1)) if m else None
res['detected'] = res['check_exit'] == 1
os.makedirs(OUT, exist_ok=True)
shutil.copy(os.path.join(D, 'patch.diff'), os.path.join(OUT, 'patch.diff'))
if os.path.isdir(os.path.join(OUT, 'demo')):
    shutil.rmtree(os.path.join(OUT, 'demo'))
shutil.copytree(os.path.join(D, 'demo'), os.path.join(OUT, 'demo'), ignore=shutil.ignore_patterns('target'))
meta = {}
try:
    meta = json.load(open(os.path.join(D, 'meta.json')))
except Exception:
    pass
meta.update({'property': pid, 'confirmation': res,
             'what_i_ran': ['demo without change (cargo run --offline in demo/)', 'git apply patch.diff in a scratch worktree', 'cargo build --offline',
                            'cargo test --workspace --no-fail-fast --offline and comparison with the 75 baseline-passing tests', 'demo with change',
                            'git -C /repo apply patch.diff; ./check %s --tier quick; git -C /repo checkout -- .' % pid]})
json.dump(meta, open(os.path.join(OUT, 'meta.json'), 'w'), indent=1)
print(pid, k, 'confirmed' if res['confirmed'] else 'NOT-CONFIRMED', 'detected' if res['detected'] else 'missed(exit=%s)' % res['check_exit'])
