#!/usr/bin/env python3
"""Regenerates /verif/MANIFEST.json from units/registry.py (keeps claimed / not_applicable consistent)."""
import json, os, sys
HERE = os.path.dirname(os.path.dirname(os.path.abspath(__file__)))
sys.path.insert(0, HERE)
from units.registry import PROPS, NOT_APPLICABLE, LEVELS
from vlib.bounded import SUITES

checks = []
for pid in sorted(PROPS):
    L = LEVELS[pid]
    checks.append({
        'property_id': pid,
        'quick_cmd': './check %s --tier quick' % pid,
        'thorough_cmd': './check %s --tier thorough' % pid,
        'evidence_file': '/verif/evidence/%s.json' % pid,
        'replay_cmd_template': './check %s --replay {path}' % pid,
        'engine': 'contract-verifier',
        'level_claimed': {'category': 'proof', 'text': L['text'] + ' BOUNDED STAND-INS on the real code, run by the same command and labelled bounded in the evidence (never counted as proved): ' + '; '.join('%s (for: %s)' % (n, w) for n, _f, w, _b in SUITES.get(pid, [])) + '.', 'design_ref': L.get('design_ref', 'DESIGN.md section 4, ' + pid)},
        'level_note': L['note'],
        'technique': L.get('technique', 'contract-based deductive verification (Verus on functions extracted mechanically from /repo each run; Kani for loop-free leaves); by-construction bounded checks of the real code stand in for functions no contract reaches and supply replayed failing inputs'),
    })
m = {
    'version': 1,
    'setup_cmd': 'python3 tools/setup.py',
    'hooks': {
        'guard': 'sliv9_penne_verif',
        'enable': 'no hooks: contracts are spliced into functions extracted from /repo on every run (Verus single-file mode); Kani harness crates #[path]-include real files',
        'baseline_off_cmd': 'cd /repo && cargo test --workspace --no-fail-fast --offline',
        'source_commits': [],
        'add_only': True,
    },
    'engines': [{
        'name': 'contract-verifier', 'path': '/verif/check',
        'serves_properties': sorted(PROPS),
        'kind_free_text': 'Python slicer + rewrite rules + contract splicer (vlib/), contracts in contracts/*.vc, ghost specs in spec/*.rs, trusted std specs in prelude/*.rs; back ends Verus 0.2026.09.13 (Z3) and Kani 0.68 (CBMC) for loop-free leaves',
    }],
    'checks': checks,
    'not_applicable': [{'property_id': p, 'reason': r} for p, r in sorted(NOT_APPLICABLE.items())],
    'notes': 'Exit codes: 0 held, 1 VIOLATION (a baselined obligation failed), 2 UNDECIDED (lost anchor / construct outside the rewrite rules / tool or resource limit). See DESIGN.md section 3.',
}
json.dump(m, open(os.path.join(HERE, 'MANIFEST.json'), 'w'), indent=1)
print('MANIFEST.json written: %d checks, %d not applicable' % (len(checks), len(m['not_applicable'])))
