#!/usr/bin/env python3
"""prints the markdown table of the bounded stand-ins (DESIGN.md section 11.3) from vlib/bounded.py"""
import os, sys
sys.path.insert(0, os.path.dirname(os.path.dirname(os.path.abspath(__file__))))
from vlib.bounded import SUITES
print('| property | suite (obligation `<id>.bounded.<suite>`) | stands in for (not under contract) | bound |')
print('|---|---|---|---|')
for pid in sorted(SUITES):
    for name, _fn, what, bound in SUITES[pid]:
        print('| %s | %s | %s | %s |' % (pid, name, what, bound))
