#!/bin/sh
# usage: tools/expand.sh <unit file stem> <exact function name e.g. ParseBuffer::push>   - rerun verus on one function with --expand-errors
cd /verif/.work && verus $1.rs --verify-root --verify-function "$2" --expand-errors --triggers-mode silent --rlimit 60 2>&1 | grep -v "^warning\|inconsistent_fields\|^ *= \|syntax will not\|^[0-9. ]*| [/|] \|^\.\.\.\|^ *|$\|^$" | head -${3:-80}
