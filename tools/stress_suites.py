"""usage: tools/stress_suites.py : runs every bounded stand-in with 25 seeds on the tree it is pointed at (VERIF_REPO, default /repo).
On the unchanged tree the last line must read `TOTAL UNKNOWN HITS 0` (recorded findings aside): rerun after ANY change of a generator."""
import sys, time, json; sys.path.insert(0,'/verif')
from vlib import bounded, driver
kf=driver.known_findings()
hits=0
for seed in list(range(0,25)):
    for pid in ['C04','C05','C06','C07','C08','C09','C11','C12','C13','C14','C15','C17']:
        t=time.time()
        res=bounded.run(pid,'quick',seed)
        for b in res:
            if b.get('failing_input') is not None:
                f={'obligation': b['obligation'], 'fn':'', 'label': b['obligation']}
                k=driver.match_known(pid,'bounded',f,kf)
                if k is None:
                    hits+=1
                    print('HIT', seed, pid, b['obligation'], json.dumps(b['failing_input'])[:1200], flush=True)
            if b.get('error'): print('ERR', seed, pid, b['suite'], b['error'], flush=True)
        print(seed, pid, '%.1fs'%(time.time()-t), flush=True)
print('TOTAL UNKNOWN HITS', hits)
