#!/bin/sh
# Runs every stored behaviour-preserving refactoring (benign/) and every stored property-breaking change (seeded/) through
# the quick check of its property, each on a scratch copy of /repo (tools/try_seed.sh), three at a time.  One line per change.
# usage: tools/run_all_seeds.sh > out.txt ; python3 tools/seed_table.py out.txt
( for d in /verif/benign/*; do echo "$d BENIGN"; done; for d in /verif/seeded/*; do echo "$d SEED"; done ) | xargs -P 3 -L 1 /verif/tools/run_one_change.sh
