#!/bin/sh
# Runs every stored behaviour-preserving refactoring (benign/) and every stored property-breaking change (seeded/) through
# the quick check of its property, each on a scratch copy of /repo (tools/try_seed.sh).  One line per change.
# usage: tools/run_all_seeds.sh > out.txt ; python3 tools/seed_table.py out.txt
for d in /verif/benign/*; do n=$(basename $d); p=${n%-*}; r=$(/verif/tools/try_seed.sh $d $p 2>&1 | grep -E "^VIOLATION|^UNDEC|^OK|^exit|rror" | tr '\n' ' ' | cut -c1-260); echo "BENIGN $n :: $r"; done
for d in /verif/seeded/*; do n=$(basename $d); p=${n%-*}; r=$(/verif/tools/try_seed.sh $d $p 2>&1 | grep -E "^VIOLATION|^UNDEC|^OK|^exit" | tr '\n' ' ' | cut -c1-260); echo "SEED $n :: $r"; done
