#!/bin/sh
# usage: tools/try_seed.sh <seed dir with patch.diff> <property id>
# Applies the change to a scratch copy of /repo's working tree (so that concurrent work on /repo is not disturbed), runs the
# quick check against it (VERIF_REPO), removes the copy.  The committed evaluation protocol (git -C /repo apply ...; ./check;
# git -C /repo checkout -- .) gives the same verdict because every check rebuilds from the tree it is pointed at.
set -u
D=$1; P=$2
T=/tmp/try_repo_$$
mkdir -p $T && rsync -a --exclude target --exclude .git /repo/ $T/ && (cd $T && git init -q . 2>/dev/null; git -C $T apply "$D/patch.diff") || { echo "patch does not apply"; rm -rf $T; exit 3; }
cd /verif && VERIF_REPO=$T ./check $P --tier quick > /tmp/try_seed_out_$$.txt 2>&1; rc=$?
grep -E "^VIOLATION|^UNDECIDED|^OK|^obligation=" /tmp/try_seed_out_$$.txt | cut -c1-260 | head -12
echo "exit=$rc"
W=`cd /verif && VERIF_REPO=$T python3 -c "from vlib import engine; print(engine.WORK)"`
if echo "$W" | grep -q "/scratch_"; then rm -rf "$W"; fi
rm -rf $T /tmp/try_seed_out_$$.txt
