#!/bin/sh
# usage: tools/try_seed.sh <seed dir with patch.diff> <property id>   - apply to /repo, run the quick check, undo
set -u
D=$1; P=$2
git -C /repo apply "$D/patch.diff" || { echo "patch does not apply"; exit 3; }
cd /verif && ./check $P --tier quick > /tmp/try_seed_out.txt 2>&1; rc=$?
git -C /repo checkout -- .
grep -E "^VIOLATION|^UNDECIDED|^OK|^obligation=" /tmp/try_seed_out.txt | cut -c1-260 | head -12
echo "exit=$rc"
