#!/usr/bin/env python3
"""usage: tools/inventory_table.py : markdown table of the units as recorded in baseline/obligations.json (DESIGN.md 12.7)"""
import json, os, sys
HERE = os.path.dirname(os.path.dirname(os.path.abspath(__file__)))
sys.path.insert(0, HERE)
from units import registry
b = json.load(open(os.path.join(HERE, 'baseline', 'obligations.json')))
owner = {}
for pid, v in registry.PROPS.items():
    for u in v['units']:
        owner.setdefault(u, []).append(pid)
tv = tl = tf = 0
print('| unit | run under | functions of /repo under contract | Verus/Kani items verified | named clauses | must-fail sentinels (present, failing as they must) |')
print('|---|---|---|---|---|---|')
for u, d in sorted(b.items()):
    nf, nl, nv, ns = len(d.get('functions', [])), len(d.get('labels', [])), d.get('verified') or 0, d.get('sentinels') or [0, 0]
    tv += nv; tl += nl; tf += nf
    print('| %s | %s | %d | %d | %d | %d, %d |' % (u, ', '.join(sorted(owner.get(u, []))), nf, nv, nl, ns[0], ns[1]))
print('| total | | %d | %d | %d | |' % (tf, tv, tl))
