#!/usr/bin/env python3
"""usage: tools/seed_table.py <batch output> : prints the markdown tables of DESIGN.md section 11.4 and updates the
`detection` entry of seeded/*/meta.json and benign/*/meta.json from a run of the evaluation protocol (tools/try_seed.sh)."""
import json, os, re, sys
HERE = os.path.dirname(os.path.dirname(os.path.abspath(__file__)))
rows = {}
for l in open(sys.argv[1]):
    m = re.match(r'(BENIGN|SEED) (\S+) :: (.*)', l.strip())
    if not m:
        continue
    kind, name, rest = m.groups()
    verdict = 'VIOLATION' if 'VIOLATION' in rest else 'UNDECIDED' if 'UNDECIDED' in rest else 'OK' if 'OK property' in rest else '?'
    obl = re.findall(r'replays/[A-Z0-9]+-(.*?)-[0-9a-f]{10}\.json( no-failing-input-found)?', rest)
    why = ''
    if verdict == 'UNDECIDED':
        mm = re.search(r'reason=(.*?)(?: UNDECIDED| exit=|$)', rest)
        why = (mm.group(1) if mm else '')[:110]
    rows[(kind, name)] = (verdict, obl, why)
print('| change | what it breaks (one line) | verdict | obligations that reported it (input = failing input replayed on the real code) |')
print('|---|---|---|---|')
for (kind, name), (verdict, obl, why) in sorted(rows.items()):
    if kind != 'SEED':
        continue
    d = os.path.join(HERE, 'seeded', name)
    meta = json.load(open(os.path.join(d, 'meta.json')))
    summ = re.sub(r'\s+', ' ', meta.get('summary', ''))[:150]
    obs = '; '.join('`%s`%s' % (o[:70], '' if nf else ' (input)') for o, nf in obl[:3])
    print('| %s | %s | %s | %s |' % (name, summ.replace('|', '/'), verdict, obs or why))
    meta['detection'] = {'verdict': verdict, 'obligations': [o for o, _ in obl], 'with_failing_input': [o for o, nf in obl if not nf]}
    json.dump(meta, open(os.path.join(d, 'meta.json'), 'w'), indent=1)
print()
print('| refactoring | kind | verdict | note |')
print('|---|---|---|---|')
for (kind, name), (verdict, obl, why) in sorted(rows.items()):
    if kind != 'BENIGN':
        continue
    d = os.path.join(HERE, 'benign', name)
    meta = json.load(open(os.path.join(d, 'meta.json')))
    lvl = {'1': 'light', '2': 'medium', '3': 'heavier', '4': 'light (round 2)', '5': 'medium (round 2)', '6': 'heavier (round 2)'}.get(name.split('-')[1], '')
    print('| %s | %s | %s | %s |' % (name, lvl, verdict, why.replace('|', '/')))
    meta['detection'] = {'verdict': verdict, 'reason': why}
    json.dump(meta, open(os.path.join(d, 'meta.json'), 'w'), indent=1)
import collections
print()
print(dict(collections.Counter((k[0], v[0]) for k, v in rows.items())))
