// Kani harnesses for the loop-free leaf functions that Verus cannot take (slice patterns).
// Full-width symbolic inputs, no loops: a passing harness is a COMPLETE proof, not a bounded one.
// The asserted facts are exactly the contracts that the Verus units assume for these functions
// (contracts/delta_nodes.vc: C15.nodes.u24_new_in_range / u24_new_value / u32_from_u24 / usize_from_u24).
fn u24v(x: U24) -> u32 { x.0[0] as u32 + 256 * (x.0[1] as u32) + 65536 * (x.0[2] as u32) }

#[cfg(kani)]
#[kani::proof]
fn check_u24_new_value() {
    let value: usize = kani::any();
    kani::assume(value < 0x1000000);            // requires [C15.nodes.u24_new_in_range]
    let r = U24::new(value);
    assert!(u24v(r) as usize == value);          // ensures  [C15.nodes.u24_new_value]
}

#[cfg(kani)]
#[kani::proof]
fn check_u32_from_u24() {
    let bytes: [u8; 3] = kani::any();
    let x = U24(bytes);
    assert!(u32::from(x) == u24v(x));            // ensures  [C15.nodes.u32_from_u24]
    assert!(usize::from(x) == u24v(x) as usize); // ensures  [C15.nodes.usize_from_u24]
    assert!(usize::from(x) < 0x1000000);
}

#[cfg(kani)]
#[kani::proof]
fn check_u24_roundtrip() {
    let value: usize = kani::any();
    kani::assume(value < 0x1000000);
    assert!(usize::from(U24::new(value)) == value);
}

// vacuity guard: a harness that MUST fail (reachability of the assumption-restricted state)
#[cfg(kani)]
#[kani::proof]
fn sentinel_must_fail() {
    let value: usize = kani::any();
    kani::assume(value < 0x1000000);
    let r = U24::new(value);
    assert!(u24v(r) == 0);
}
fn main() {}
