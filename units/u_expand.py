"""U-EXPAND: src/alpha/expander.rs `expand` + `expand_one` + `is_import` (C12: importing a file makes exactly its `pub`
functions (as signatures), constants and structures visible, never its private items and never items it imported itself,
whatever order the files are given in).

Sliced for real: the whole of expander.rs (expand, expand_one, is_import, get_key_offset, export, extract_public), and from
common.rs / error.rs the enums Declaration, DeclarationFlag, Poison, Error and `impl From<Error> for Poison`.
Callee contracts: `export` / `extract_public` carry contracts/u_export.vc and `get_key_offset` carries contracts/u_keyoff.vc
VERBATIM (the files are loaded, not copied) with the same rules, preludes and oracles as U-EXPORT / U-KEYOFF, and are
RE-VERIFIED here - nothing about them is assumed in this unit.

What is outside the Verus dialect in `expand` goes through the rules EX1..EX6 of units/u_expand_rules.py; the std calls
(HashSet, sort_by_key, partition_point, retain, splice, i32::from(bool), to_string, PathBuf::clone) are trusted wrappers with
explicit specs in prelude/expand_std.rs; the HashSet iteration order is ARBITRARY (ex_into_vec: some duplicate-free
enumeration).  The oracle is spec/u_expand_spec.rs."""
from units.u_export import r3_call_map
from units.u_keyoff import LOOKUPS
from units.u_keyoff_rules import r_iter_position, r_option_adapters, r_std_path
from units.u_expand_rules import r_mut_loops, r_adapters, r_hashset_iteration, r_to_string, r_explicit_deref, r_expand_one

C = 'src/alpha/common.rs'
E = 'src/alpha/error.rs'
X = 'src/alpha/expander.rs'

MODULE = '(PathBuf, Vec<Declaration>)'

# EX2: typed head + ghost contract of every closure literal of `expand`, by adapter and parameter shape ($P = parameter)
CLOSURES = {
    ('map_collect', 'tuple'): dict(ty='&' + MODULE, ret='PathBuf', ens='ex_r@ == $P.0@',
                                   label='C12.expand.keys_are_the_module_paths'),
    ('sort_by_key', 'ident'): dict(ty='&Declaration', ret='i32', ens='ex_r as int == import_first_key()(*$P)', ghost=['import_first_key()'],
                                   label='C12.expand.sort_key_puts_imports_first'),
    ('partition_point', 'ident'): dict(ty='&Declaration', ret='bool', ens='ex_r == is_import_decl()(*$P)', ghost=['is_import_decl()'],
                                       label='C12.expand.partition_predicate_is_is_import'),
    ('take_while_count', 'ident'): dict(ty='&Declaration', ret='bool', ens='ex_r == is_import_decl()(*$P)', ghost=['is_import_decl()'],
                                        label='C12.expand.partition_predicate_is_is_import'),
    ('drain_filter_map_collect', 'ident'): dict(ty='Declaration', ret='Option<Declaration>',
                                                ens='(ex_r is Some <==> is_public_item($P)) && (ex_r is Some ==> exported_as($P, ex_r->Some_0))',
                                                ghost=['public_item()', 'exported()'],
                                                label='C12.expand.importer_gets_the_export_of_each_declaration'),
    ('retain', 'ident'): dict(ty='&Declaration', ret='bool', ens='ex_r == not_import_decl()(*$P)', ghost=['not_import_decl()'],
                              label='C12.expand.processed_imports_are_what_is_filtered_out'),
    ('retain', 'tuple'): dict(ty='&(usize, usize)', ret='bool', ens='ex_r == not_self_edge()(*$P)', ghost=['not_self_edge()'],
                              label='C12.expand.self_import_contributes_nothing'),
    ('filter_map_collect', 'ident'): dict(ty='&Declaration', ret='Option<Declaration>',
                                          ens='(ex_r is Some <==> is_public_item(*$P)) && (ex_r is Some ==> exported_as(*$P, ex_r->Some_0))',
                                          ghost=['public_item()', 'exported()'],
                                          label='C12.expand.importer_gets_the_export_of_each_declaration'),
}


def build(u):
    u.load_contracts('contracts/u_expand.vc')
    u.load_contracts('contracts/u_export.vc')
    u.load_contracts('contracts/u_keyoff.vc')
    u.include('prelude/expand_types.rs')
    u.include('prelude/export_std.rs')
    u.include('prelude/keyoff_path.rs')
    u.include('prelude/slice_position.rs')
    u.include('prelude/expand_std.rs')
    u.include('prelude/expand_slice.rs')
    u.opaque += ['EnumSet<T> (trusted set model)', 'HashSet<T> (trusted set model, arbitrary iteration order)', 'std::path::Path', 'std::path::PathBuf',
                 'Location', 'Identifier', 'Expression', 'ValueType', 'OperandValueType', 'Parameter', 'Member', 'FunctionBody', 'lexer::Error',
                 'included::source_name_hint (uninterpreted function of the file name)']
    u.notes += [
        'export / extract_public / get_key_offset: contracts of contracts/u_export.vc and contracts/u_keyoff.vc loaded verbatim and re-verified in this unit (not assumed)',
        'trusted: prelude/expand_std.rs (HashSet model with arbitrary iteration order; sort_by_key stable; partition_point; retain; splice; i32::from(bool); to_string; PathBuf::clone), '
        'prelude/expand_types.rs (EnumSet model, opaque field types, derived Clone = identity, source_name_hint uninterpreted)',
        'verified helpers: prelude/expand_slice.rs (iter().map().collect(), iter().filter_map().collect() as loops), prelude/slice_position.rs',
    ]
    u.emit(E, 'type Poisonable')
    u.emit(E, 'enum Poison', derive_drop=['Clone'])
    u.emit(E, 'enum Error', derive_drop=['Clone'])
    u.emit(C, 'enum DeclarationFlag')
    u.emit(C, 'enum Declaration', derive_drop=['Clone'])
    u.include('spec/u_export_spec.rs', kind='spec')
    u.include('spec/u_keyoff_spec.rs', kind='spec')
    u.include('spec/u_expand_spec.rs', kind='spec')
    u.emit(E, 'impl From<Error> for Poison')
    u.emit(X, 'fn extract_public')
    u.emit(X, 'fn export', rules=[r3_call_map('extract_public')])
    u.emit(X, 'fn get_key_offset', rules=[r_std_path, r_iter_position('PathBuf', LOOKUPS), r_option_adapters])
    u.emit(X, 'fn is_import')
    u.emit(X, 'fn expand', rules=[r_std_path, r_mut_loops, r_hashset_iteration, r_adapters(CLOSURES), r_to_string,
                                  r_explicit_deref('get_key_offset', 2, 'as_path')])
    u.emit(X, 'fn expand_one', rules=[r_expand_one])
