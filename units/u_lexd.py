"""U-LEXD: the delta lexer with its token buffers in ONE unit (C15 totality/memory safety, C14 spans, C09 values).
src/delta/lexer.rs: lex, lex_source_into_tokens, lex_source_into_buffer, parse_integer_suffix, is_identifier_continuation
src/delta/lexer/digits.rs: parse_decimal_digit, parse_hex_digit
src/delta/lexer/tokens.rs: Tokens::{empty, empty_with_one_error, buffer, set_tokens_len}, TokensBuffer::*, TokenLocation::*,
                            ValueTypeAndPayloadId::new"""
from vlib import rules, rules_lexer as rl
LX = 'src/delta/lexer.rs'
TK = 'src/delta/lexer/tokens.rs'
DG = 'src/delta/lexer/digits.rs'
AL = 'src/alpha/lexer.rs'
RLIMIT = 200


def build(u):
    u.features.append('allocator_api')
    u.load_contracts('contracts/u_lexd.vc')
    u.raw('use std::mem::MaybeUninit;')
    u.include('prelude/lexer_std.rs')
    u.include('prelude/usize_minmax.rs')
    u.include('prelude/delta_uninit.rs')
    u.include('prelude/peek_iter.rs')
    u.emit(AL, 'enum Error', keep_derives=['Debug'])
    u.raw('pub type LexingError = Error;\nuse Error::InvalidIntegerLength;')
    u.emit(LX, 'enum BaseToken')
    u.emit(LX, 'enum ValueTypeKeyword')
    u.emit(LX, 'enum TokenPayload')
    for c in ('MAX_SOURCE_LEN', 'MAX_NUM_TOKENS', 'MAX_NUM_PAYLOADS', 'MAX_NUM_LEXING_ERRORS'):
        u.emit(TK, 'const ' + c)
    u.emit(TK, 'struct TokenAllocError')
    u.emit(TK, 'struct ValueTypeAndPayloadId', pub_fields=True)
    u.emit(TK, 'struct TokenId', pre=lambda t: t.replace('struct TokenId(u32)', 'struct TokenId(pub u32)'))
    u.emit(TK, 'struct PayloadId', pre=lambda t: t.replace('struct PayloadId(u32)', 'struct PayloadId(pub u32)'))
    u.emit(TK, 'struct TokenLocation')
    u.emit(TK, 'struct Tokens', pub_fields=True)
    u.emit(TK, 'struct TokensBuffer', pub_fields=True)
    u.include('spec/ltok_ok_spec.rs', kind='spec')
    u.include('spec/u_lexd_spec.rs', kind='spec')
    u.emit(TK, 'impl ValueTypeAndPayloadId', only=['new'], rules=[rules.r20_param_patterns])
    u.emit(TK, 'impl TokenLocation')
    R = [rules.r13_assert_eq, rules.r19_with_capacity, rules.r21_cmp_minmax]
    u.emit(TK, 'impl Tokens #0', rules=R)
    u.emit(TK, "impl<'buffer> TokensBuffer<'buffer>", rules=R)
    u.emit(DG, 'fn parse_decimal_digit')
    u.emit(DG, 'fn parse_hex_digit')
    u.emit(LX, 'fn parse_integer_suffix', rules=[rl.r7_bytestring_patterns])
    u.emit(LX, 'fn is_identifier_continuation')
    u.emit(LX, 'fn lex_source_into_buffer', rules=[
        rules.flatten_paths(['tokens']), rl.strip_lifetimes(['source', 'buffer', 'tokens']),
        rl.r5_peek_iter, rl.r6_by_value_patterns, rl.r7_bytestring_patterns,
        rl.r4_inline_typed_closure('push_byte'), rl.r12_drop_noop_utf8_loop])
    u.emit(LX, 'fn lex_source_into_tokens')
    u.emit(LX, 'fn lex')
