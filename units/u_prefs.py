"""U-PREFS (C17, parser side): `parse()` ENSURES refs_ok of its result - "no reference crosses a zone", the second precondition of
ParseTree::build_header (U-HDR), next to tree_ok which U-PARSE already proves.
A COPY of U-PARSE (same real code, same rules, every clause of contracts/u_parse.vc and of the generated uniform contracts kept) plus ONE
more buffer invariant, rinv / cfl (spec/u_prefs_spec.rs): along the scan that skips closed zones, every node outside the zones stores only
node ids at or above the position right after the last closed zone in front of it.  It is carried by
  * every ParseBuffer operation (contracts/u_prefs.vc = contracts/u_parse.vc + the clauses labelled C17.pbuf.*references* / *floor* / stored_id_*),
  * the uniform pre / post / loop invariant of all 29 parse functions (pre, post, linv, list_in of spec/u_parse_spec.rs are extended
    TEXTUALLY on every run, see spec_text(); the generated contracts gain: the floor is untouched, every returned node id is new),
  * parse(), which converts it into refs_ok with lemma_rinv_implies_refs_ok.
units/u_parse.py, contracts/u_parse.vc, spec/u_parse_spec.rs and U-HDR are not modified; helpers and the contract TABLE are imported."""
import re
import os
from vlib import rules, rules_lexer as rl
from vlib.rsparse import LostAnchor
from units.delta_common import emit_nodes, tuple_pub
from units import u_parse as UP
from units.u_parse import (P, CT, PT, LT, LX, LEX_TOKENS_FNS, r24_from_call, r9_reservation, r9_defs, drop_to_release, PBFRAME, K,
                           RANK_ORDER, UNRES, NO_PROGRESS, STRICT, PROPH_FN, PROPH_LOOP)
import copy
RLIMIT = 60
MULTIPLE_ERRORS = 6
TABLE = copy.deepcopy(UP.TABLE)
# the two functions that RECEIVE a node id (the left operand, parsed by the caller): it must not lie behind the floor
TABLE['parse_rest_of_bitwise_expression'].setdefault('req', []).append('[C17.parse.left_operand_does_not_cross_a_zone] u24v(expression.0) >= cfl(*old(buffer)),')
TABLE['parse_rest_of_bitwise_expression']['loops'][0]['extra'] = TABLE['parse_rest_of_bitwise_expression']['loops'][0].get('extra', []) + ['u24v(expression.0) >= cfl(b0),']
TABLE['parse_rest_of_bitshift_operation'].setdefault('req', []).append('[C17.parse.left_operand_does_not_cross_a_zone] u24v(left.0) >= cfl(*old(buffer)),')
# the trailer of a function body (return value, statement list, FunctionBody) refers to nodes of the body: stated as named assertions
# in front of the pushes, so that a body zone that is closed too early fails HERE (and quickly) and not somewhere in the search
TABLE['parse_function_declaration'].setdefault('inserts', []).append(
    ('before', 0, 'buffer.push_optional_node(return_value);',
     '\t\tproof {\n\t\t\tassert(u24v(statements.0) >= cfl(*buffer)); /*@L:C17.parse.body_trailer_stays_inside_the_body_zone*/\n'
     '\t\t\tassert(return_value is Some ==> u24v((return_value->0).0) >= cfl(*buffer)); /*@L:C17.parse.body_trailer_stays_inside_the_body_zone*/\n\t\t}'))
TABLE['parse_function_declaration']['inserts'].append(
    ('before', 0, 'let body = buffer.push(ParseNode::FunctionBody {});',
     '\t\tproof { assert(buffer.active_private_zone is Some); /*@L:C17.parse.whole_body_trailer_is_inside_the_body_zone*/ }'))
# node ids that a loop carries from one iteration to the next (besides the open lists): they were created inside the function
NEW_ID = {'parse_addition': {0: ['expression']}, 'parse_multiplication': {0: ['expression']}, 'parse_singular_expression': {0: ['expression']}}


def expand_static_contracts(u):
    src = open(os.path.join(u.verif, 'contracts/u_prefs.vc')).read()
    src = re.sub(r'PBFRAME0\((\w+)\)', lambda m: PBFRAME % ((m.group(1),) * 6), src)
    src = re.sub(r'PBFRAME\((\w+)\)', lambda m: (PBFRAME % ((m.group(1),) * 6)) + '\n\tdecls_same(*old(%s), *final(%s)),' % (m.group(1), m.group(1)), src)
    src = src.replace('NODES_PER_TOKEN()', str(K))
    out = os.path.join(u.work, 'u_prefs_static.vc')
    os.makedirs(os.path.dirname(out), exist_ok=True)
    open(out, 'w').write(src)
    u.load_contracts(os.path.join(u.work_rel, 'u_prefs_static.vc'))


def spec_text(u):
    """spec/u_parse_spec.rs with K filled in and the uniform contract extended by the reference invariant (textual, checked:
    a pattern that is not found is a generator error, never a silent no-op)"""
    s = open(os.path.join(u.verif, 'spec/u_parse_spec.rs')).read().replace('KKK', str(K))
    def rep(old, new):
        nonlocal s
        if s.count(old) != 1:
            raise LostAnchor('U-PREFS: spec/u_parse_spec.rs no longer contains %r exactly once' % old)
        s = s.replace(old, new)
    rep('live(t) && pb_inv(b) && zinv(b) && b.num_nodes', 'live(t) && pb_inv(b) && zinv(b) && rinv(b) && cfl(b) <= b.num_nodes && b.num_nodes')
    rep('&&& pb_inv(b1) && extends(b0, b1) && zinv(b1)', '&&& pb_inv(b1) && extends(b0, b1) && zinv(b1) && rinv(b1) && cfl(b1) <= b1.num_nodes')
    rep('&&& pb_inv(b) && extends(b0, b) && zinv(b)', '&&& pb_inv(b) && extends(b0, b) && zinv(b) && rinv(b) && cfl(b) <= b.num_nodes')
    rep('list_ok(b, l) && (l is Some ==> u24v(l->0.last_node.0) >= b0.num_nodes)',
        'list_ok(b, l) && (l is Some ==> u24v(l->0.last_node.0) >= b0.num_nodes && u24v(l->0.first_node.0) >= b0.num_nodes)')
    return s


def gen_parse_contracts(u):
    import os
    src = u.source(P)
    out = ['## GENERATED by units/u_prefs.py from TABLE on every run - do not edit']
    for it in src.items:
        if it.kind != 'fn' or it.name not in TABLE:
            continue
        n = it.name
        d = TABLE[n]
        rank = 100 - RANK_ORDER.index(n)
        rec = d.get('recent', True)
        out.append('=== fn fn %s' % n)
        out.append('ret r')
        out.append('requires')
        out.append('\t[C15.parse.entry_condition] pre(*old(tokens), *old(buffer)),')
        if n in UNRES:
            out.append('\t[C15.parse.cursor_unreserved] unreserved(*old(tokens)),')
        for q in d.get('req', []):
            out.append('\t' + q)
        out.append('ensures')
        out.append('\t[C15.parse.%s.exit_condition_and_node_budget] post(*old(tokens), *old(buffer), *final(tokens), *final(buffer), %d),' % (n, d['c']))
        out.append('\t[C15.parse.%s.ok_leaves_cursor_live] r is Ok ==> post_ok(*old(tokens), *final(tokens)),' % n)
        if n not in NO_PROGRESS:
            out.append('\t[C15.parse.%s.progress] pos(*final(tokens)) > pos(*old(tokens)),' % n)
        if rec is True:
            out.append('\t[C15.parse.%s.returns_most_recent_node] r is Ok ==> recent(*final(buffer), r->Ok_0),' % n)
        elif rec == 'pair1':
            out.append('\t[C15.parse.%s.returns_most_recent_node] r is Ok ==> recent(*final(buffer), r->Ok_0.1) && u24v(r->Ok_0.0.0) < final(buffer).num_nodes,' % n)
        elif rec == 'optpair':
            out.append('\t[C15.parse.%s.returns_most_recent_node] r is Ok ==> u24v(r->Ok_0.0.0) < final(buffer).num_nodes && (r->Ok_0.1 is Some ==> recent(*final(buffer), r->Ok_0.1->0)),' % n)
        else:
            out.append('\t[C15.parse.%s.returns_existing_node] r is Ok ==> u24v(r->Ok_0.0) < final(buffer).num_nodes,' % n)
        for e in d.get('ens', []):
            out.append('\t' + e)
        # ---- U-PREFS: every node id handed back was created by this call
        if rec is True or rec is False:
            out.append('\t[C17.parse.%s.returned_node_is_new] r is Ok ==> u24v(r->Ok_0.0) >= old(buffer).num_nodes,' % n)
        elif rec == 'pair1':
            out.append('\t[C17.parse.%s.returned_node_is_new] r is Ok ==> u24v(r->Ok_0.0.0) >= old(buffer).num_nodes && u24v(r->Ok_0.1.0) >= old(buffer).num_nodes,' % n)
        elif rec == 'optpair':
            out.append('\t[C17.parse.%s.returned_node_is_new] r is Ok ==> u24v(r->Ok_0.0.0) >= old(buffer).num_nodes && (r->Ok_0.1 is Some ==> u24v((r->Ok_0.1->0).0) >= old(buffer).num_nodes),' % n)
        if d.get('zone', 'same') == 'same':
            out.append('\t[C17.parse.%s.private_zone_state_untouched] final(buffer).active_private_zone == old(buffer).active_private_zone,' % n)
            out.append('\t[C17.parse.%s.floor_untouched] cfl(*final(buffer)) == cfl(*old(buffer)),' % n)
        out.append('\tdecls_same(*old(buffer), *final(buffer)),')
        out.append('\t' + PROPH_FN)
        out.append('decreases rem(*old(tokens)), %dint' % rank)
        out.append('--- body_prefix')
        out.append('\tlet ghost t0 = *tokens; let ghost b0 = *buffer;')
        if n in ('parse_declaration', 'parse_function_declaration'):
            pass
        head, ret, where, body = __import__('vlib.rsparse', fromlist=['x']).fn_signature_split(it.text)
        loops = __import__('vlib.rsparse', fromlist=['x']).find_loops(body)
        for k, (kw, hdr, bo) in enumerate(loops):
            ld = d.get('loops', {}).get(k, dict(c=0))
            out.append('--- loop %d | %s' % (k, hdr))
            inv = ['t0 == *old(tokens), b0 == *old(buffer), linv(t0, b0, *tokens, *buffer, %d),' % ld.get('c', 0)]
            if n in UNRES:
                inv.append('unreserved(*tokens),')
            for l in ld.get('lists', []):
                inv.append('list_in(b0, *buffer, %s),' % l)
            inv += ld.get('extra', [])
            if n in STRICT:
                inv.append('pos(*tokens) > pos(t0),')
            if d.get('zone', 'same') == 'same':
                inv.append('buffer.active_private_zone == b0.active_private_zone,')
                inv.append('cfl(*buffer) == cfl(b0),')
            for v in NEW_ID.get(n, {}).get(k, []):
                inv.append('u24v(%s.0) >= b0.num_nodes,' % v)
            inv.append('decls_same(b0, *buffer),')
            inv.append(PROPH_LOOP)
            if 'brk' in ld:
                # the loop is left only through `break`: what holds there is stated as the loop's ensures
                out.append('invariant_except_break')
                out += ['\t' + x for x in inv]
                out.append('ensures')
                out += ['\t' + x for x in inv + ld['brk']]
            else:
                out.append('invariant')
                out += ['\t' + x for x in inv]
            if not hdr.startswith('for '):
                out.append('decreases rem(*tokens)')
        for (w, nth, anchor, text) in d.get('inserts', []):
            out.append('--- %s %d | %s' % (w, nth, anchor))
            out.append(text)
        out.append('')
    path = os.path.join(u.work, 'u_prefs_generated.vc')
    open(path, 'w').write('\n'.join(out))
    u.load_contracts(os.path.join(u.work_rel, 'u_prefs_generated.vc'))


def build(u):
    u.notes += [
        'U-PREFS = U-PARSE + the reference invariant: every label of U-PARSE is kept (217), 71 are added; nothing is assumed that U-PARSE does not assume '
        '(same trusted std / MaybeUninit / enumset shims, same rules); wfs / zinv is re-proved here, not assumed',
        'rinv is STRONGER than refs_ok: an id stored outside the zones is at or above the position right after the last closed zone in front of the storing '
        'node (refs_ok only asks: not below the NUMBER of skipped nodes, i.e. no underflow in convert_for_head); forward references (ListItem.next, patched '
        'later) are only known to point forward - neither refs_ok nor rinv says that they do not run into a later zone',
        'node ids that a parse function receives as an argument (the left operand of parse_rest_of_bitwise_expression / parse_rest_of_bitshift_operation) carry the '
        'precondition left_operand_does_not_cross_a_zone, proved at both call sites (parse_addition)',
        'inside an open zone nothing is demanded of stored ids (those nodes are skipped by build_header); the floor is kept while the zone is open and '
        'moves behind the end marker when set_public closes it',
        'the composition parse(); build_header() is still by matching text: both units include spec/u_hdr_spec.rs unchanged (tree_ok, refs_ok)',
    ]
    expand_static_contracts(u)
    import os as _o
    if _o.environ.get('U_PREFS_STAGE', '') != 'B':
        gen_parse_contracts(u)
    emit_nodes(u, convert=False)
    u.include('prelude/usize_minmax.rs')
    u.include('prelude/parse_strum.rs')
    u.include('prelude/parse_std.rs')
    u.include('prelude/slice_count.rs')
    # ---- lexer side (read-only accessors)
    u.emit(LX, 'enum BaseToken')
    u.raw('pub mod lexer { use super::*; pub use super::BaseToken; pub use super::ValueTypeKeyword;\npub mod tokens { use super::*; use vstd::prelude::*; use vstd::std_specs::cmp::{PartialEqSpec, PartialEqSpecImpl};')
    u.emit(LT, 'struct ValueTypeAndPayloadId', pub_fields=True)
    u.emit(LT, 'struct TokenId', pre=lambda t: t.replace('struct TokenId(u32)', 'struct TokenId(pub u32)'))
    u.emit(LT, 'struct PayloadId', pre=lambda t: t.replace('struct PayloadId(u32)', 'struct PayloadId(pub u32)'))
    u.emit(LT, 'type Span')
    u.emit(LT, 'struct Tokens', pub_fields=True)
    u.raw('pub type LexingError = u8; /* opaque here: the parser never looks at lexing errors */')
    u.raw('#[verifier::external_body] pub struct TokenLocation { _p: u8 }')
    u.include('spec/ltok_ok_spec.rs', kind='spec')
    u.include('spec/u_parse_lex_spec.rs', kind='spec')
    u.emit(LT, 'impl ValueTypeAndPayloadId', only=['value_type'])
    u.emit(LT, 'impl Tokens #1', only=LEX_TOKENS_FNS, rules=[rules.r20_param_patterns])
    u.emit(LT, 'impl From<TokenId> for parse_node::TokenId', pre=lambda t: t.replace('parse_node::', 'crate::'))
    u.emit(LT, 'impl From<TokenId> for usize')
    u.raw('} }\nuse lexer::tokens::Span;')
    # ---- parser types
    u.emit(P, 'const MAX_ADDRESS_DEPTH')
    u.emit(P, 'const MAX_REFERENCE_DEPTH')
    u.emit(P, 'enum ParsingError')
    u.emit(PT, 'const MAX_NUM_PARSING_ERRORS')
    u.emit(PT, 'const MAX_PARSE_NODE_CONTEXT')
    u.emit(PT, 'struct ParseTree', pub_fields=True)
    u.emit(PT, 'struct ParseBuffer', pub_fields=True)
    u.emit(PT, 'struct ActiveList', pub_fields=True)
    u.emit(PT, 'struct UnfinishedImpl', pub_fields=True)
    u.emit(CT, 'struct Tokens', pub_fields=True)
    u.raw('use ParseNode::UnpatchedListItem;\nuse BaseToken::EndOfSource;')
    import os as _os
    _sp = spec_text(u)
    open(_os.path.join(u.work, 'u_prefs_spec_k.rs'), 'w').write(_sp)
    u.include(_os.path.join(u.work_rel, 'u_prefs_spec_k.rs'), kind='spec')
    u.include('spec/u_hdr_spec.rs', kind='spec')
    u.include('spec/u_prefs_spec.rs', kind='spec')
    # ---- node buffer (real code)
    RB = [rules.r13_assert_eq, rules.r19_with_capacity, rules.r21_cmp_minmax, rules.r20_param_patterns, rules.r23_push_within_capacity('self.declarations')]
    u.emit(PT, 'impl ParseTree #0', rules=RB, pre=lambda t: t.replace('tokens: &Tokens,', 'tokens: &lexer::tokens::Tokens,'))
    u.notes.append('parse_tree.rs imports the lexer Tokens unqualified; in the single-file unit the name is qualified (lexer::tokens::Tokens)')
    u.emit(PT, "impl<'buffer> ParseBuffer<'buffer>", rules=RB)
    # ---- cursor (real code)
    # R24: trait impls cannot carry `requires`; the From impl is emitted as an inherent constructor (same body) and the one
    # statically dispatched call `Tokens::from(tokens)` in `parse` is redirected to it, so the body is verified under the
    # precondition and the precondition is checked at the call.
    def from_to_inherent(t):
        t2 = re.sub(r"(?m)^impl<'a> From<&'a lexer::tokens::Tokens> for Tokens<'a>", "impl<'a> Tokens<'a>", t, count=1).replace('fn from(', 'pub fn from_lexed(')
        if t2 == t:
            raise LostAnchor('R24: From impl of the cursor not in the expected form')
        u.rules['R24'] += 1
        return t2
    u.emit(CT, "impl<'a> From<&'a lexer::tokens::Tokens> for Tokens<'a>", pre=from_to_inherent, widen=False)
    u.emit(CT, "impl<'a> Tokens<'a> #0")
    u.emit(CT, "impl<'a, 'b: 'a> Tokens<'b>", rules=[r9_defs])
    u.emit(CT, "impl<'a> Tokens<'a> #1")
    src = u.source(CT)
    drop_item = src.find("impl<'a, 'b: 'a> Drop for TokensWithReservation<'a, 'b>")
    rkey = 'impl Drop for TokensWithReservation :: fn drop (as release)'
    rtext = drop_to_release(drop_item.text)
    rc = u.contracts.get(rkey)
    if rc is not None:
        rc.used = True
        rtext = u._splice(rkey, rtext, rc)
    u.fns.append((rkey, CT, drop_item.lines[0], drop_item.lines[1], rc is not None))
    u.raw("impl<'b> Tokens<'b>\n{\n//@fn %s | %s:%d-%d\n%s\n//@endfn\n}" % (rkey, CT, drop_item.lines[0], drop_item.lines[1], rtext))
    u.rules['R9-release-from-Drop::drop'] += 1
    # ---- the parser
    R = [rules.r13_assert_eq, r9_reservation, rules.flatten_paths(['parse_node']), rules.r22_filter_count('|t: BaseToken| is_decl_start(t)'), r24_from_call]
    src = u.source(P)
    import os
    stage = os.environ.get('U_PREFS_STAGE', '')
    for it in src.items:
        if stage == 'B':
            break
        if it.kind == 'fn' and (it.name.startswith('parse') or it.name == 'starts_declaration'):
            u.emit(P, 'fn ' + it.name, rules=R)
