"""U-VARS (C05: no variable is used out of scope, shadowed, or with its declaration skipped) - the variable stack and the goto / label
bookkeeping of src/alpha/scoper/variable_references.rs (`impl Analyzer`):
  push_scope, pop_scope                   the stack of open layers (pop on an empty stack is a no-op)
  declare_variable, declare_parameter     E422 / E424 iff the name is visible in ANY open layer (layer 0 = constants included);
                                          the declaration enters the innermost layer with a fresh id even when it is rejected
  use_variable                            E402 iff no open layer holds the name; else the first match in layer order; E482 once
                                          (entry removed, id poisoned), poisoned ids rejected silently, else use_containee
  prepare_to_prune_at_goto                per label: the INTERSECTION of the ids in scope at each goto, location of the first goto
  prune_at_label                          the variables of the label's own layer outside that intersection enter pruned_variables
Re-verified here under their U-SCOPE contracts (contracts/u_scope.vc, imported verbatim): use_containee, found_container_1,
`impl From<Error> for Poison` (use_variable ends in use_containee).  Built on the U-SCOPE extraction: same AST types, same preludes,
spec/u_scope_spec.rs included in front of spec/u_vars_spec.rs.  NOT in the unit: the tree walk (`Analyzable`) that calls these
functions in textual order - the reading "not in scope at a goto = the goto stands before the declaration" rests on it."""
from vlib import rules
from units.ast_common import emit_ast
from units.u_align import import_contracts
from units import u_scope_rules as SR
from units import u_vars_rules as VR
from units.u_scope import rules_found_container_1
F = 'src/alpha/scoper/variable_references.rs'
E = 'src/alpha/error.rs'
IMPL = 'impl Analyzer'
BY_NAME = 'b == (x.name@ == identifier.name@)'


def build(u):
    u.features.append('allocator_api')   # signature of HashSet::clone (prelude/scope_hashset.rs)
    u.load_contracts('contracts/u_vars.vc')
    u.notes += [
        'TRUSTED wrapper: vars_retain (prelude/vars_std.rs), body `s.retain(f)`, spec = std doc of HashSet::retain over the view Set<u32> '
        '(the closure is related to its ghost predicate by a `requires` checked at the call site)',
        'trusted std specs as in U-SCOPE (Option::flatten, HashSet::clone, scope_union / scope_difference wrappers; only HashSet::clone and the union wrapper '
        'are reachable here, through found_container_1); vstd specs of HashMap::{remove, insert, contains_key}, HashSet::{new, insert, contains}, '
        '[T]::{last, iter}, Vec::{push, pop}, Result::map_err, Option::{map, unwrap}; derived Clone of Identifier/Location/Error/Poison is the identity',
        'VERIFIED helpers: vars_collect (prelude/vars_collect.rs: HashSet::from_iter(..flat_map..map..) as two loops), scope_nested_find (flat_map().find()), slice_find',
        'rules VR1-VR5 (units/u_vars_rules.py): VR2 restates `entry(k).and_modify(f).or_insert(v)` and VR5 `entry(k).or_insert_with(f)` with '
        'remove / contains_key / insert (the same MAP afterwards; hash-table iteration order is not under contract anywhere), VR4 fuses the lazy '
        '`.iter().filter(p)` into the `for` loop it feeds; closure bodies are kept verbatim',
        'caller obligations no call site of the unit discharges (they belong to the tree walk): fewer than 2^32 ids, an open scope when declaring, '
        'in_constexpr_of_constant names a predeclared constant, and inside a constant initialiser every visible identifier is a container '
        '(visible_are_containers: else found_container_1 panics on expect("containee must be predeclared"))',
        'theorems (spec/u_vars_spec.rs): theorem_pruned_iff_some_goto_does_not_have_the_variable_in_scope, theorem_E482_marks_exactly_the_declarations_a_goto_skips '
        '(set level; the textual reading needs the tree walk, which is not under contract)',
    ]
    import_contracts(u, 'contracts/u_scope.vc', ['impl From<Error> for Poison :: fn from', 'impl Analyzer :: fn found_container_1', 'impl Analyzer :: fn use_containee'])
    emit_ast(u)
    u.include('prelude/scope_std.rs')
    u.include('prelude/slice_find.rs')
    u.include('prelude/scope_find.rs')
    u.include('prelude/slice_position.rs')
    u.include('prelude/scope_hashset.rs')
    u.include('prelude/vars_collect.rs')
    u.include('prelude/vars_std.rs')
    u.emit(E, 'impl From<Error> for Poison')
    u.emit(F, 'struct Analyzer', pub_fields=True)
    u.emit(F, 'struct Container', pub_fields=True)
    u.emit(F, 'struct UnresolvedPruning', pub_fields=True)
    u.emit(F, 'struct Pruning', pub_fields=True)
    u.include('spec/u_scope_spec.rs', kind='spec')
    u.include('spec/u_vars_spec.rs', kind='spec')
    u.emit(F, IMPL, only=['found_container_1'], rules=rules_found_container_1())
    u.emit(F, IMPL, only=['use_containee'])
    R = [rules.only_for([':: fn use_variable'], SR.sc3_nested_find('Identifier', BY_NAME, find_label='C05.vars.lookup_is_by_name', min_count=0)),
         SR.r14_named('Identifier', BY_NAME, find_label='C05.vars.lookup_is_by_name')]
    u.emit(F, IMPL, only=['push_scope', 'pop_scope', 'declare_variable', 'declare_parameter', 'use_variable'], rules=R)
    RG = [VR.vr1_from_iter('Identifier', 'r == identifier.resolution_id', '|x: Identifier| x.resolution_id', label='C05.vars.scope_is_recorded_by_resolution_id', written_for='identifier'),
          VR.optional(VR.vr3_retain('b == variables_in_scope@.contains(*x)', '|x: u32| variables_in_scope@.contains(x)', label='C05.vars.later_gotos_narrow_the_intersection')),
          VR.optional(SR.sc6_hashset_union),
          VR.vr2_entry_and_modify_or_insert]
    u.emit(F, IMPL, only=['prepare_to_prune_at_goto'], rules=RG)
    RL = [VR.optional(VR.vr5_entry_or_insert_with),
          VR.vr4_filter_for('b == !intersection_of_variables@.contains(x.resolution_id)', label='C05.vars.pruned_are_the_variables_outside_the_intersection')]
    u.emit(F, IMPL, only=['prune_at_label'], rules=RL)
