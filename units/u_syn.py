"""U-SYN: src/alpha/analyzer/syntax.rs, whole file (C06: E800 / E801 / E840 placement rules)."""
from vlib import rules
from units.ast_common import emit_ast
F = 'src/alpha/analyzer/syntax.rs'


def inject(after_brace_text):
    def f(text):
        i = text.index('{')
        return text[:i + 1] + '\n' + after_brace_text + text[i + 1:]
    return f


def build(u):
    u.load_contracts('contracts/u_syn.vc')
    emit_ast(u)
    u.include('spec/u_syn_spec.rs', kind='spec')
    R = [rules.r1_r2_map_collect(min_count=0), rules.only_for([':: fn analyze'], rules.r3_option_map_if_present(['else_branch']))]
    u.emit(F, 'struct Analyzer', pub_fields=True)
    u.emit(F, 'trait Analyzable', pre=inject('\tspec fn pre(self, a: Analyzer) -> bool;\n\tspec fn post(self, r: Self, a0: Analyzer) -> bool;'))
    u.emit(F, 'impl Analyzable for Declaration', rules=R,
           pre=inject('\topen spec fn pre(self, a: Analyzer) -> bool { !a.is_naked_then_branch && !a.is_naked_else_branch }\n\topen spec fn post(self, r: Self, a0: Analyzer) -> bool { okd(r, self) }'))
    u.emit(F, 'impl Analyzable for FunctionBody', rules=R,
           pre=inject('\topen spec fn pre(self, a: Analyzer) -> bool { !a.is_naked_then_branch && !a.is_naked_else_branch }\n\topen spec fn post(self, r: Self, a0: Analyzer) -> bool { okf(r, self) }'))
    u.emit(F, 'impl Analyzable for Block', rules=R,
           pre=inject('\topen spec fn pre(self, a: Analyzer) -> bool { !a.is_naked_then_branch && !a.is_naked_else_branch }\n\topen spec fn post(self, r: Self, a0: Analyzer) -> bool { okb(r, self) }'))
    u.emit(F, 'impl Analyzable for Statement', rules=R,
           pre=inject('\topen spec fn pre(self, a: Analyzer) -> bool { true }\n\topen spec fn post(self, r: Self, a0: Analyzer) -> bool { ok(r, self, a0.is_naked_then_branch, a0.is_naked_else_branch, a0.is_in_block) }'))
    u.emit(F, 'fn analyze')
