"""Rewrite rules used only by unit U-EXTERN.  Same conventions as vlib/rules.py: every rule is local and syntactic,
counts itself in `unit.rules`, and raises LostAnchor when a requested pattern is malformed (exit 2, never an alarm)."""
import re
from vlib.rsparse import LostAnchor, tokenize


def r_assert_message(u, key, text):
    """RES1 (copied from units/u_res_rules.py): assert!(COND, "fmt {x:?}")  ->  assert!(COND)
    The message is only evaluated on the panic path; the obligation (COND holds, i.e. no panic) is unchanged.
    Verus has no spec for core::fmt."""
    out, pos = [], 0
    for m in re.finditer(r'\b(debug_)?assert!\(', text):
        if m.start() < pos:
            continue
        start = m.end()
        toks = tokenize(text[start:])
        depth, comma, endp = 0, None, None
        for t in toks:
            if t.kind == 'p' and t.text in '([{':
                depth += 1
            elif t.kind == 'p' and t.text in ')]}':
                if depth == 0:
                    endp = t.start
                    break
                depth -= 1
            elif t.kind == 'p' and t.text == ',' and depth == 0 and comma is None:
                comma = t.start
        if endp is None:
            raise LostAnchor('%s: RES1 unbalanced assert!' % key)
        if comma is None:
            continue
        out.append(text[pos:start + comma])
        pos = start + endp
        u.rules['RES1-assert-message'] += 1
    out.append(text[pos:])
    return ''.join(out)
