"""Which units decide which property (DESIGN.md section 4)."""
UNIT_KIND = {'U-DIG': 'kani'}  # default 'verus'

PROPS = {
    'C07': {'units': ['U-VT', 'U-RES', 'U-FCALL', 'U-SYM'],
            'assumptions': ['the typer\'s symbol table (put_symbol/do_update_symbol/get_symbol/poisoning) is under contract (U-SYM: a recorded type is only ever refined, never converted; a mismatch is E500 and leaves the table unchanged); the callers of put_symbol (the Typed impls: which type each expression puts), get_type_of_reference and the insertion of Autocoerce nodes are not under contract',
                            'U-SYM: both types handed to do_update_symbol are well formed (the two assert!s, kept as preconditions); retrieve_named_length is only asked about a declared constant (unreachable!()); trusted HashMap::get_mut specification (prelude/sym_std.rs)', 'function_calls.rs preconditions: every non-builtin callee is declared (else unreachable!), no builtin is IncludeBytes (todo!(): D16), see U-FCALL evidence'],
            'trusted': []},
    'C04': {'units': ['U-LABEL'],
            'assumptions': ['fewer than 2^32 labels per program (precondition of analyze)',
                            'that a Poison::Error(UndefinedLabel/DuplicateDeclarationLabel) surfaces as rejection with E400/E420 is the resolver\'s error collection, not under contract (code numbers: C13 unit)'],
            'trusted': []},
    'C06': {'units': ['U-SYN', 'U-LINT'],
            'assumptions': ['the Linter is idle (both flags off) between lint() calls: holds as Linter has private fields and is built by Default',
                            'that Poison::Error(MissingBraces/NonFinalLoopStatement/MisplacedLoopStatement) surfaces as E840/E800/E801 is the resolver\'s error collection'],
            'trusted': []},
    'C09': {'units': ['U-VT', 'U-LEXD', 'U-LEXA', 'U-LINT'], 'assumptions': ['alpha parser literal handling (negation, suffix inference) and generator constant materialisation are not under contract',
            'alpha lexer: the direction proved is accepted => well formed with the documented value (so malformed literals are rejected); that every well-formed literal is accepted, and the specific error kinds E160-E163 per malformation, are not proved',
            'alpha lexer std calls under assumed specs (checked against real std by an exhaustive/random scratch program, not on every run): char::{is_ascii_hexdigit,is_ascii_digit,is_digit,is_ascii_graphic,is_ascii,from_u32,encode_utf8,to_string}, {u8,u32,u128}::from_str_radix on all-digit strings, str::parse::<u128>, String::{len,as_bytes}, str::len'], 'trusted': []},
    'C11': {'units': ['U-VT', 'U-ALIGN', 'U-EXTERN', 'U-SCOPE'], 'assumptions': ['name resolution and cycle detection of top-level declarations are under contract (U-SCOPE: declare_*/use_struct/use_constant/use_function/use_containee/found_container_1/determine_container_depths/predeclare); found_container (the walk over a member or constant TYPE that feeds found_container_1), obtain_container_depth, postanalyze, the tree walk and the sorting of declarations (Compiler, feature-gated) are not under contract',
            'U-SCOPE preconditions no call site in the unit discharges: fewer than 2^32 resolution ids, at least one open scope when declaring, in_constexpr_of_constant names a predeclared constant, constants_are_containers; trusted: Option::flatten and HashSet::clone specifications, the wrappers scope_union / scope_difference whose body is the operator application (prelude/scope_std.rs, scope_hashset.rs)',
            'align_struct preconditions (struct or word with sized members; layout fits usize) are the typer\'s obligation, not verified'], 'trusted': []},
    'C08': {'units': ['U-VT', 'U-MUT', 'U-MUTW', 'U-FCALL', 'U-CONST'], 'assumptions': ['the whole-program non-interference consequence is not under contract; constant initialisers are not walked by mutability.rs; it relies on constness.rs rejecting every address, access path and call in a constant initialiser, which is proved (U-CONST); ReferenceStep::analyze of constness.rs has a latent unreachable!() that is dead code (every reference with steps is rejected before it runs): it carries a caller precondition that holds vacuously at its only call site'], 'trusted': []},
    'C12': {'units': ['U-EXPORT', 'U-KEYOFF'], 'assumptions': ['expand (import fix-point), Compiler multi-module state and split-equivalence are not under contract'], 'trusted': []},
    'C13': {'units': ['U-CODE', 'U-LEXD', 'U-LEXA', 'U-LOC', 'U-ACC'], 'assumptions': ['rendering (ariadne), parser-side span combination beyond Location::combined_with, and run-to-run determinism (HashMap/HashSet iteration) are not under contract', 'alpha lexer spans: as under C14 (trusted model of str::split_inclusive / strip_suffix)'], 'trusted': []},
    'C14': {'units': ['U-LEXD', 'U-LEXA'], 'assumptions': ['the headline equivalence of the two lexers is not stated as one theorem: each lexer is verified against its own declarative token/span/value spec',
            'alpha lexer: the line offset is proved to be the true character index of the line in the source, against a trusted exact model of str::split_inclusive (pieces concatenate to the source, none empty, every piece but the last ends in a line feed, no other line feed) and of str::strip_suffix for a char',
            'alpha lexer: keyword and punctuation tables in the spec restate the language tables (no documented list exists in the repository)'], 'trusted': []},
    'C15': {'units': ['U-LEXD', 'U-PARSE', 'U-HDR', 'U-DIG'], 'assumptions': ['recorded findings D4 (parser recursion) and D17 (XML printer recursion): 14 shapes of deeply nested or long valid modules abort the process with a stack overflow; printed as KNOWN-FINDING on every run, each with its replayed input','XML dumps (as_xml/print_xml) excluded: format!/Box<dyn Iterator>/&str slicing',
            'lex -> parse interface: lex() ENSURES ltok_shape (two final EndOfSource tokens, parallel well-formed packed words) and <= 2^24 tokens whenever it reports no error (U-LEXD); parse() REQUIRES ltok_ok = ltok_shape && tokens < 2^24 (U-PARSE); both units include the same text spec/ltok_ok_spec.rs; the composition is by matching that text, not one Verus run',
            'parse() precondition: 5 + 5 * tokens <= 2^24 (node ids are 24 bits): for inputs above ~3.3 million tokens U24::new would overflow (debug_assert) - documented size regime, see DESIGN.md section 5 (D10)',
            'unbounded stack: recursion depth of the parser is not bounded by any obligation (D4: 5000 nested parentheses overflow the stack)',
            '.into() conversions from lexer TokenId to parse_node::TokenId: argument < 2^24 not checked per call site (trait impls cannot carry requires); holds because cursor <= number of tokens < 2^24'], 'trusted': []},
    'C17': {'units': ['U-HDR', 'U-PARSE', 'U-DIG'], 'assumptions': [
            'refs_ok (no node id stored in a public node points below the number of skipped nodes, i.e. no reference crosses a zone) stays a precondition of build_header: it is NOT proved of the parser output. The other half of the tree invariant (zones well bracketed: tree_ok) IS proved as a postcondition of parse() and matches build_header\'s precondition literally (same spec file)',
            'parse() and build_header() are verified in two units (U-PARSE, U-HDR) that include the same spec text spec/u_hdr_spec.rs; the composition parse();build_header() is by matching pre/postcondition text, not by one Verus run',
            'the semantic reading "exactly the public interface" relies on the zone discipline: private declarations and the bodies of public functions are parsed inside a private zone, public declarations outside (proved: C17.parse.zone_matches_visibility, function_body_is_parsed_inside_a_private_zone)'], 'trusted': []},
}

# clauses labelled for one property that also decide part of another one (the unit serves both)
ALSO_RELEVANT = {
    # a value that silently coerces into a pointer needs no `&`: the coercion relation also decides C08's explicit-address clause
    'C08': ['C07.vt.only_documented_coercions', 'C07.vt.only_documented_address_coercions', 'C07.vt.autoderef_only_strips_layers'],
    'C14': ['C15.tokbuf.payload', 'C15.tokbuf.packed_word', 'C15.tokbuf.push_appends', 'C15.tokbuf.push_token_appends', 'C15.tokbuf.two_end_of_source'],
    'C13': ['C14.lexa.span', 'C14.lexa.token_span', 'C14.lexa.token_on_given_line', 'C14.lexa.error_token_span', 'C14.lexa.escape_error_span', 'C14.lexa.missing_quote_error_spans',
            'C14.lexa.tokens_appended_with_increasing_spans', 'C14.lexa.line_offset_is', 'C14.lexa.line_is_the_source_text', 'C14.lexa.line_terminator_stripped', 'C14.lexa.every_token_lies_inside', 'C14.lexa.file_token_spans', 'C14.lexa.empty_file_is_reported', 'C14.lexa.offsets_fit'],
}

NOT_APPLICABLE = {
    'C01': 'quantifies over executions of emitted LLVM IR; generator.rs is unsafe LLVM-C FFI behind a feature that cannot be built here (llvm-sys 60 vs LLVM 14); no Rust-level contract expresses LLVM semantics',
    'C02': 'pipeline-wide totality of the alpha compiler is one cross-stage invariant over ~20k lines in closure/iterator/HashMap style outside the Verus dialect; Kani cannot bound it usefully (measured)',
    'C03': 'validity is judged by external LLVM tools on text produced through FFI that cannot be built here',
    'C05': 'variable_references.rs (1782 lines) keeps its state in HashMap/HashSet with retain/entry/flat_map closures; the E482 rule is a CFG path property needing a protocol-level invariant; outside both verifiers\' reach',
    'C10': 'both evaluators are LLVM (constant folder vs executed code) reached through FFI; the only Rust arithmetic involved (align) is proved under C11',
    'C18': 'process/OS-level effects (exit status, child processes, files, environment); no Rust-level contract; binary without alpha cannot compile',
    'C19': 'claim about the support of a random generator built from closures over &mut dyn Rng, format! and String building; string-language inclusion is outside Verus/Kani reach',
    'C20': 'round-trip parse(lex(rebuild(t))) needs verified specs of the alpha lexer and parser (outside the dialect) and string reasoning over 1000 lines of printing',
}
NOT_APPLICABLE['C16'] = ('tree fidelity is a relational specification of the whole grammar against the flat relative-context node layout (nodes[-1], nodes[-2], ...) and the first-generation AST, and '
                         'completeness (every valid module accepted) needs a declarative grammar of the language; the observation point (parse_tree_xml.rs: print_xml/as_xml) is format!/Box<dyn Iterator>/&str slicing outside the Verus dialect '
                         'and too large for Kani; what contracts can reach of the parser (totality, node budget, debug_assert protocol, zone bracket invariant) is claimed under C15 and C17; the MALFORMED-free dump is sampled only by the thorough-tier differential sweep of C17, which decides nothing')

LEVELS = {'C07': {'text': 'PARTIAL: proof (Verus, unbounded over all value types of any depth and all expression trees). value_type.rs: equals == identity up to the char8~u8 alias, can_coerce_into / can_coerce_address_into == '
                 'exactly the documented array/struct-to-view/slice coercions, autoderef never changes the underlying element type. resolver.rs operator rules: each unary/binary/comparison operator is accepted exactly '
                 'on its documented operand class with identical operand types, else E550/E551/E581; bit cast only pointer-to-pointer/primitive-to-primitive (E553). function_calls.rs (whole tree walk): a call is '
                 "accepted iff the argument count equals the parameter count and every argument type is identical to the parameter type, else E510/E511 or E512/E513 at the first mismatch, checked against the callee's "
                 'declaration. typer.rs symbol table (U-SYM: do_update_symbol, put_symbol, poison_symbol, get_symbol, named lengths): the type recorded for a symbol is only ever kept or refined '
                 '(concretisation, or the documented coercion when the declaration is put), never converted - a scalar on either side forces identical types and the primitive at the bottom of any array/pointer spine is preserved; '
                 'anything else is E500 with the table unchanged; poison is sticky for typed puts. The Typed impls that call put_symbol and the insertion of Autocoerce nodes are NOT under contract.',
         'note': 'trusted: Verus+Z3, slicer/splicer, rules R1/R3/R13/R20/R25, unit rules RES1/RES2/FC1/FC2, derived PartialEq/Clone structural (assumed specs), vstd HashMap model, HashMap::get_mut specification (prelude/sym_std.rs), Box::as_ref / Option::map_or specs; '
                 'preconditions callee_declared / builtin_is_implemented (D16) are obligations on earlier stages, not verified'},
 'C04': {'text': 'Proof (Verus, unbounded over all statement trees and all programs): every function of label_references.rs verified against an abstract label-stack semantics; '
                 'Statement/Block/FunctionBody/Declaration/analyze results equal the oracle (goto resolves iff a label of that name is visible, else E400 variant; label accepted iff name not visible, else E420 '
                 'variant), stack balanced per block and empty between functions; theorem_visibility proves visible <=> label later in same block or in an enclosing block.',
         'note': 'trusted: Verus+Z3, slicer/splicer, rules R1/R2/R14 (iterator chains to loops, iter().find to verified slice_find), derived Clone is identity, [T]::reverse spec, vstd Vec/String specs; opaque: '
                 'Location, Expression, Comparison, ...; assumes < 2^32 labels; rejection surfacing (resolver) not under contract'},
 'C06': {'text': 'Proof (Verus, unbounded over all statement trees) that syntax.rs replaces exactly the statements violating the placement rules by the E840/E800/E801 error variants (relational oracle ok/okb/okf over '
                 'the three context flags, incl. flag protocol inv/mono) for Statement, Block, FunctionBody, Declaration and analyze. L1800: every Lintable impl of linter.rs verified: the LoopAsFirstStatement lints '
                 'appended == exactly the oracle (branch block whose first statement is loop), in traversal order, with payload; expressions raise no L1800.',
         'note': 'trusted: Verus+Z3, slicer/splicer, rules R1/R3, derived Default/Clone specs, [T]::reverse spec; opaque expression/location types; surfacing of Poison as diagnostics (resolver) not under contract'},
 'C12': {'text': 'PARTIAL (small): proof that extract_public/export of expander.rs expose exactly the pub declarations, functions as signatures, Public cleared, all other fields equal; imports/poison/private give None; '
                 "find_key_offset (import resolution): an exact key wins at its first occurrence, else the first key equal to the path relative to the includer's directory, else unresolved. expand() (import fix-point), "
                 'Compiler multi-module state and split-equivalence are NOT under contract.',
         'note': 'trusted: Verus+Z3, slicer/splicer, rules R3, KO1-KO3 (path/iterator shims), enumset model over a Set view, Result::clone spec, opaque AST field types with identity Clone'},
 'C13': {'text': 'PARTIAL (small): proof that every variant of Error::code() returns a code that has a section in docs/errors.md (catalogue regenerated from the headings on every run; one named obligation per variant; '
                 'the 8 codes that had no section, D7, were documented by the repair d4dc545); alpha Location::combined_with yields a forward span that covers both spans tightly and keeps the primary line/position; delta token-location '
                 'arithmetic cannot underflow. Alpha lexer span exactness is proved under C14. resolver::accumulate/combine and Errors::{combined_with, sorted, codes} (U-ACC): when two parts of a module fail, the reported diagnostics are the stable sort by primary location (file, line, column) of both lists, nothing lost; codes() lists the codes in order - so the order of the diagnostics does not depend on the order in which declarations were processed. Rendering (ariadne) and run-to-run determinism (HashMap/HashSet iteration) are NOT under contract.',
         'note': 'trusted: Verus+Z3, slicer/splicer, heading parser of docs/errors.md'},
 'C14': {'text': "PARTIAL: each lexer verified (Verus, unbounded over all inputs) against its own declarative spec. ALPHA (lex, lex_line, parse_integer_suffix, is_identifier_continuation): every token's span is "
                 'start..end = exactly the characters consumed for it, on the given line, spans strictly increasing; the line offset is the true character index of the line in the source (CRLF included; D9 repaired); identifiers are maximal and their text is the source '
                 'text; 34 reserved words/builtins/identifier classification; punctuation by longest match; other characters rejected one by one; literal payloads as under C09 (D14, a span overshoot on a trailing '
                 'backslash, was found by span_end_tracks_consumed_chars and fixed). DELTA (all byte strings <= 2^31): digit values, suffix table, identifier-continuation class, span arithmetic, termination and '
                 'panic-freedom of all 13 loops. The equivalence of the two lexers is NOT stated as one theorem.',
         'note': 'trusted: Verus+Z3, slicer/splicer, rules R4-R7/R12/R18/R26, RA5-RA13, verified PeekIter/CharPeekIter/slice_eq shims, assumed std specs (prelude/lexa_std.rs; str::lines modelled by three facts only); '
                 'keyword/punctuation tables of the spec restate the language tables'},
 'C15': {'text': 'Proof (Verus, unbounded) for lexing and header extraction: for every byte string the delta lexer with its uninitialised token buffers terminates without overflow, out-of-bounds access or failing '
                 'expect, and the unsafe set_len precondition (cells initialised) is discharged end to end through the buffer invariant; header extraction writes in bounds and initialises what set_len exposes. parsing: '
                 'all 29 parse_* functions, the cursor (parser/tokens.rs), the node buffer (parse_tree.rs) and parse() itself in ONE unit: termination, no take() after EndOfSource, no unreachable!() in consume, every '
                 'debug_assert (most-recent-node, placeholder patches), node budget of 5 nodes per token so that push never exceeds the buffer, declaration loop ends at EndOfSource, unsafe set_len discharged. parse() '
                 "additionally ensures the zones of the produced tree are well bracketed (tree_ok, build_header's precondition). XML dumps excluded; recursion depth (stack) not bounded.",
         'note': 'trusted: Verus+Z3, slicer/splicer, rewrite rules, MaybeUninit/Vec spare-capacity model (std safety contract), Vec::with_capacity gives exactly n, allocation never fails, unbounded stack'},
 'C17': {'text': 'Proof (Verus, unbounded over all node sequences) that build_header/build_header_nodes/convert_for_head output exactly the nodes outside private zones in order, pub flag cleared, function bodies '
                 'removed, node ids shifted by the number of skipped nodes, declarations = declaration nodes in order - under the tree invariant tree_ok (zones well bracketed) && refs_ok (no reference crosses a zone). '
                 'PARSER SIDE (U-PARSE, all 29 parse_* functions and every ParseBuffer method): the zone-bracket scan invariant is maintained by every buffer operation, zone markers are written only by '
                 'set_private/set_public, private declarations and bodies of public functions are parsed inside a private zone and public declarations outside (zone_matches_visibility), and parse() ENSURES tree_ok of '
                 'its result. refs_ok is not proved of the parser and stays a precondition.',
         'note': 'trusted: Verus+Z3, slicer/splicer, rules R4/R9/R13/R17-R24, enumset bit model with closed membership, U24 conversions proved by Kani (U-DIG, full u32 domain, loop-free), MaybeUninit/Vec spare-capacity '
                 'model'},
 'C08': {'text': 'PARTIAL: proof (Verus, unbounded over all trees). mutability.rs: the whole tree walk (all Analyzable impls and analyze) equals a relational oracle: var declarations mutable, constants and ALL '
                 'parameters immutable, assignment targets and address-taking that does not pass through a pointer are the mutating uses, E530 iff the variable is known, mutated and declared immutable, exactly one '
                 'table key updated per declaration, every argument of every call analysed. function_calls.rs: E513 hint iff taking the address would fit; the is-immediate-argument flag protocol over the whole walk '
                 '(D13 was found by this obligation and fixed). constness.rs (whole file, U-CONST): a constant initialiser with an address, an access path, a call or |x| is replaced by the E360/E361 error, whole aggregates are not copied (E531-E533), everything else is returned structurally unchanged - this is what lets mutability.rs skip constant initialisers. The whole-program non-interference consequence is NOT under contract.',
         'note': 'trusted: Verus+Z3, slicer/splicer, vstd HashMap axioms, derived Clone/PartialEq specs, opaque Location'},
 'C09': {'text': 'PARTIAL: proof (Verus, unbounded). value_type.rs: min_i128/max_u128 are exactly -2^(bits-1) / 2^(bits-1)-1 / 2^bits-1 for every integer type; linter.rs: L1142 raised exactly for literals outside that '
                 'range. ALPHA LEXER (lex_line, whole function, all 12 loops): an accepted char/string literal is well formed per a declarative element grammar and its bytes are exactly the documented value (\\n \\r '
                 '\\t \\\\ \\\' \\" \\0, \\xHH = the single byte 0xHH, \\u{...} = UTF-8 of the scalar, plain chars = their UTF-8), so malformed escapes/quotes are never accepted; integer literals: digits collected with '
                 '_ skipped have the value of the source digits in base 10/16/2, E140 exactly when the value exceeds 128 bits, the eleven suffixes and E141 otherwise, naked/bit/suffixed token kinds. DELTA LEXER: digit '
                 'values, suffix table, overflow-checked accumulation with E140. Parser minus-folding, typer and generator constant materialisation are NOT under contract.',
         'note': 'trusted: Verus+Z3, slicer/splicer, rules R4-R7/R12/R18/R26 and RA5-RA13 (CharPeekIter shim verified over vstd str specs), assumed std specs of char/str/from_str_radix/parse (prelude/lexa_std.rs), '
                 'usize is 64-bit; direction proved: accepted => well formed with documented value (completeness of acceptance and the specific E160-E163 kind per malformation not proved)'},
 'C11': {'text': 'PARTIAL: proof (Verus, unbounded over all types of any nesting depth). value_type.rs: is_wellformed / can_be_* equal a declarative spec of the E350-E359 shapes. typer.rs align_struct/align: alignment '
                 'is the least multiple, total size = sum of aligned member sizes, total alignment = max member alignment, E380 iff the aligned total exceeds the declared word size, no overflow. typer.rs '
                 'externalize_type/fix_type_for_extern: accepted iff an ABI type at every depth, else E358 naming the offending type; an accepted type stays well formed EXCEPT array views of array views (D15: recorded '
                 'known finding with replayed witness). scoper/variable_references.rs (U-SCOPE): a type name resolves to the first STRUCTURE of that name and a constant name in the constant layer only, wherever it is declared '
                 '(theorem_resolution_is_by_name_not_by_position: with unique names every reordering resolves every name alike), else exactly E405 / E402 / E433; duplicates E421/E423/E425 iff the name is taken in the same '
                 'namespace, the first declaration keeps the name; every dependency is recorded in sets that stay transitive and irreflexive, an edge is rejected iff it closes a cycle (E413/E415/E416 with exact payloads); '
                 'container depths are the round in which all dependencies are resolved and do not depend on declaration order (theorem_depths_do_not_depend_on_declaration_order). The walk over member/constant types that '
                 'feeds these (found_container), the tree walk and the sorting of declarations (Compiler, feature-gated) are NOT under contract.',
         'note': "trusted: Verus+Z3, slicer/splicer, derived PartialEq/Clone specs, vstd HashMap model; align_struct preconditions (struct/word with sized members, layout fits usize) are the typer's obligation"}}
