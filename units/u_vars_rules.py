"""Rewrite rules used only by unit U-VARS (DESIGN.md 2.3 conventions; numbered locally; same style as units/u_scope_rules.py, whose
rules SC3 / R14 / SC1.. the unit also uses).  Every rule is local and syntactic, counts itself in `unit.rules`, and raises
LostAnchor when the pattern it is asked for is not there (exit 2, never an alarm).

VR1  std::collections::HashSet::from_iter(S.iter().flat_map(|l| { l.iter().map(|x| E) }))
         ->  vars_collect(S.as_slice(), CL(x, E), Ghost(G))
     vars_collect is the VERIFIED helper of prelude/vars_collect.rs (two nested loops inserting E for every element); CL gives the
     inner closure a typed head and a ghost contract and keeps its body; G is the ghost function it computes.
VR2  M.entry(K).and_modify(|e| { B }).or_insert(V);
         ->  match M.remove(&K) { Some(vr_old) => { let mut e = vr_old; B M.insert(K, e); } None => { M.insert(K, V); } }
     std: `entry(k).and_modify(f)` "provides in-place mutable access to an occupied entry before any potential inserts into the
     map", `or_insert(v)` "ensures a value is in the entry by inserting the default if empty".  The rewritten text takes the old
     value out, applies B to it and puts it back under the same key / inserts V when there was none: the same MAP afterwards
     (only HashMap::remove / insert, which vstd specifies; a closure with a `&mut` parameter is outside the Verus dialect).  V is
     evaluated only when it is inserted (the original evaluates it always; it must be pure: a struct literal of moves / clones,
     checked syntactically: no call except `.clone()`); K must be a place expression (it is written twice).
VR3  X.retain(|x| P);   ->   vars_retain(&mut X, CL(x, P), Ghost(KEEP));      TRUSTED wrapper (prelude/vars_std.rs) whose body is `s.retain(f)`
VR4  let N = S.iter().filter(|x| P); for D in N { B }
         ->  for D in S.iter() { let vr_keep = { let x = &D; let b = { P }; proof { assert(ENS); } b }; if vr_keep { B } }
     The lazy filter is fused into the loop it feeds (N must have no other use): std Filter::next yields, in order, the elements
     on which the predicate returns true, and the `for` body runs on exactly those; predicate and body alternate in the same
     order in both texts.  The predicate receives `&&T` (here: `&D` with D: &T) as in the original; its body is kept verbatim.
VR5  M.entry(K).or_insert_with(|| V);   ->   if !M.contains_key(&K) { M.insert(K, V); }
     std: or_insert_with "ensures a value is in the entry by inserting the result of the default function if empty": V is
     evaluated (once) only when the key is absent, in both texts.  K must be a plain identifier (written twice).
"""
import re
from vlib.rsparse import LostAnchor, tokenize, match_brackets
from vlib.rules import _seq, _receiver_start, _closure, _as_block
from units.u_scope_rules import _typed, _subst


def _stmt_start(text, pos):
    """offset of the first non-blank character of the line containing pos"""
    ls = text.rfind('\n', 0, pos) + 1
    return ls + len(text[ls:]) - len(text[ls:].lstrip())


def _unbrace(body):
    b = body.strip()
    if b.startswith('{') and b.endswith('}'):
        toks = tokenize(b)
        if match_brackets(toks).get(0) == len(toks) - 1:
            return b[1:-1].strip()
    return b


def vr1_from_iter(elem, ens, ghost_fn, label=None, written_for='x'):
    def rule(u, key, text):
        toks = tokenize(text)
        match = match_brackets(toks)
        site = None
        for i, t in enumerate(toks):
            if t.kind == 'id' and t.text == 'from_iter' and toks[i + 1].text == '(' and i >= 3 and toks[i - 3].text == 'HashSet':
                site = i
                break
        if site is None:
            raise LostAnchor('%s: rule VR1 found no `HashSet::from_iter(..)`' % key)
        i = site
        start = i - 3
        while start >= 3 and toks[start - 1].text == ':' and toks[start - 2].text == ':' and toks[start - 3].kind == 'id':
            start -= 3
        op = i + 1
        cl = match[op]
        d = None
        for k in range(op + 1, cl):
            if toks[k].text == '.' and _seq(toks, k, ['.', 'iter', '(', ')', '.', 'flat_map', '(']) and toks[k + 7].text == '|':
                d = k
                break
        if d is None:
            raise LostAnchor('%s: VR1 argument of from_iter is not `S.iter().flat_map(|l| ..)`' % key)
        recv = re.sub(r'\s+', '', text[toks[op + 1].start:toks[d].start])
        fm_open = d + 6
        rest = text[toks[match[fm_open]].end:toks[cl].start].strip().strip(',').strip()
        if rest:
            raise LostAnchor('%s: VR1 something follows the flat_map: %r' % (key, rest[:40]))
        lp, lb = _closure(text, toks, match, fm_open)
        inner = _unbrace(lb)
        it = tokenize(inner)
        im = match_brackets(it)
        if not (len(it) > 9 and it[0].text == lp.strip() and _seq(it, 1, ['.', 'iter', '(', ')', '.', 'map', '(']) and it[8].text == '|' and im[7] == len(it) - 1):
            raise LostAnchor('%s: VR1 flat_map closure is not `|l| l.iter().map(|x| E)`: %r' % (key, inner[:60]))
        param, body = _closure(inner, it, im, 7)
        c = _typed(param, body, '&' + elem, 'r', 'u32', ens, label, written_for)
        new = 'vars_collect(%s.as_slice(),\n\t\t\t%s,\n\t\t\tGhost(%s))' % (recv, c, ghost_fn)
        u.rules['VR1-hashset-from-iter'] += 1
        return text[:toks[start].start] + new + text[toks[cl].end:]
    return rule


def vr2_entry_and_modify_or_insert(u, key, text):
    toks = tokenize(text)
    match = match_brackets(toks)
    site = None
    for i, t in enumerate(toks):
        if t.text == '.' and _seq(toks, i, ['.', 'entry', '(']):
            k = match[i + 2] + 1
            if _seq(toks, k, ['.', 'and_modify', '(']) and toks[k + 3].text == '|':
                m = match[k + 2] + 1
                if _seq(toks, m, ['.', 'or_insert', '(']) and toks[match[m + 2] + 1].text == ';':
                    site = (i, k + 2, m + 2)
                    break
    if site is None:
        raise LostAnchor('%s: rule VR2 found no `M.entry(K).and_modify(|e| ..).or_insert(V);`' % key)
    i, mopen, oopen = site
    rs = _receiver_start(toks, i)
    recv = re.sub(r'\s+', '', text[toks[rs].start:toks[i].start])
    k_txt = text[toks[i + 2].end:toks[match[i + 2]].start].strip()
    if not re.match(r'^[A-Za-z_][\w.]*$', k_txt):
        raise LostAnchor('%s: VR2 key %r is not a place expression' % (key, k_txt))
    param, body = _closure(text, toks, match, mopen)
    if not re.match(r'^[A-Za-z_]\w*$', param):
        raise LostAnchor('%s: VR2 and_modify parameter %r' % (key, param))
    v_txt = text[toks[oopen].end:toks[match[oopen]].start].strip()
    calls = re.findall(r'\b([A-Za-z_]\w*)\s*\(', v_txt)
    if any(c != 'clone' for c in calls):
        raise LostAnchor('%s: VR2 inserted value is not a literal of moves and clones' % key)
    stmts = _unbrace(body)
    new = ('match %s.remove(&%s)\n\t\t{\n\t\t\tSome(vr_old) =>\n\t\t\t{\n\t\t\t\tlet mut %s = vr_old;\n\t\t\t\t%s\n\t\t\t\t%s.insert(%s, %s);\n\t\t\t}\n'
           '\t\t\tNone =>\n\t\t\t{\n\t\t\t\t%s.insert(%s, %s);\n\t\t\t}\n\t\t}'
           % (recv, k_txt, param, stmts, recv, k_txt, param, recv, k_txt, v_txt))
    u.rules['VR2-entry-and-modify-or-insert'] += 1
    return text[:toks[rs].start] + new + text[toks[match[oopen] + 1].end:]


def vr3_retain(ens, keep, label=None, written_for='x'):
    def rule(u, key, text):
        toks = tokenize(text)
        match = match_brackets(toks)
        for i, t in enumerate(toks):
            if t.text == '.' and _seq(toks, i, ['.', 'retain', '(']) and toks[i + 3].text == '|' and toks[match[i + 2] + 1].text == ';':
                rs = _receiver_start(toks, i)
                recv = re.sub(r'\s+', '', text[toks[rs].start:toks[i].start])
                param, body = _closure(text, toks, match, i + 2)
                c = _typed(param, body, '&u32', 'b', 'bool', ens, label, written_for)
                from vlib.rules import follow_renames
                new = 'vars_retain(&mut %s,\n\t\t\t%s,\n\t\t\tGhost(%s))' % (recv, c, follow_renames(keep, but_not=('x',)))
                u.rules['VR3-hashset-retain'] += 1
                return text[:toks[rs].start] + new + text[toks[match[i + 2]].end:]
        raise LostAnchor('%s: rule VR3 found no `X.retain(|x| ..);`' % key)
    return rule


def vr4_filter_for(ens, label=None, written_for='x'):
    def rule(u, key, text):
        toks = tokenize(text)
        match = match_brackets(toks)
        for i, t in enumerate(toks):
            if t.text == '.' and _seq(toks, i, ['.', 'iter', '(', ')', '.', 'filter', '(']) and toks[i + 7].text == '|' and toks[match[i + 6] + 1].text == ';':
                rs = _receiver_start(toks, i)
                if not (rs >= 3 and toks[rs - 1].text == '=' and toks[rs - 2].kind == 'id' and toks[rs - 3].text == 'let'):
                    continue
                name = toks[rs - 2].text
                if sum(1 for x in toks if x.kind == 'id' and x.text == name) != 2:
                    raise LostAnchor('%s: VR4 the filtered iterator `%s` is used elsewhere' % (key, name))
                semi = match[i + 6] + 1
                f = semi + 1
                if not (toks[f].text == 'for' and toks[f + 1].kind == 'id' and toks[f + 2].text == 'in' and toks[f + 3].text == name and toks[f + 4].text == '{'):
                    raise LostAnchor('%s: VR4 the filtered iterator `%s` does not feed the `for` that follows' % (key, name))
                recv = re.sub(r'\s+', '', text[toks[rs].start:toks[i].start])
                param, body = _closure(text, toks, match, i + 6)
                var = toks[f + 1].text
                e = _subst(ens, written_for, param)
                mark = ' /*@L:%s*/' % label if label else ''
                bopen = f + 4
                inner = text[toks[bopen].end:toks[match[bopen]].start].rstrip()
                new = ('for %s in %s.iter()\n\t\t\t\t{\n\t\t\t\t\tlet vr_keep = { let %s = &%s; let b = %s; proof { assert(%s);%s } b };\n\t\t\t\t\tif vr_keep\n\t\t\t\t\t{%s\n\t\t\t\t\t}\n\t\t\t\t}'
                       % (var, recv, param, var, _as_block(body), e, mark, inner))
                u.rules['VR4-filter-fused-into-for'] += 1
                return text[:toks[rs - 3].start] + new + text[toks[match[bopen]].end:]
        raise LostAnchor('%s: rule VR4 found no `let N = S.iter().filter(|x| ..); for D in N {..}`' % key)
    return rule


def vr5_entry_or_insert_with(u, key, text):
    toks = tokenize(text)
    match = match_brackets(toks)
    for i, t in enumerate(toks):
        if t.text == '.' and _seq(toks, i, ['.', 'entry', '(']):
            k = match[i + 2] + 1
            if _seq(toks, k, ['.', 'or_insert_with', '(', '|', '|']) and toks[match[k + 2] + 1].text == ';':
                rs = _receiver_start(toks, i)
                recv = re.sub(r'\s+', '', text[toks[rs].start:toks[i].start])
                k_txt = text[toks[i + 2].end:toks[match[i + 2]].start].strip()
                if not re.match(r'^[A-Za-z_]\w*$', k_txt):
                    raise LostAnchor('%s: VR5 key %r is not a plain identifier' % (key, k_txt))
                v = text[toks[k + 4].end:toks[match[k + 2]].start].strip()
                new = 'if !%s.contains_key(&%s)\n\t\t\t\t\t\t{\n\t\t\t\t\t\t\t%s.insert(%s, %s);\n\t\t\t\t\t\t}' % (recv, k_txt, recv, k_txt, v)
                u.rules['VR5-entry-or-insert-with'] += 1
                return text[:toks[rs].start] + new + text[toks[match[k + 2] + 1].end:]
    raise LostAnchor('%s: rule VR5 found no `M.entry(K).or_insert_with(|| V);`' % key)


def optional(rule):
    """apply `rule` where its pattern occurs; a function text without the pattern is left alone (used for patterns that are NOT in the
    pinned code, so that a change which introduces them - e.g. a union where the intersection was - is JUDGED by the contracts)"""
    def r(u, key, text):
        try:
            return rule(u, key, text)
        except LostAnchor:
            return text
    return r
