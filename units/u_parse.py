"""U-PARSE: the whole delta parser in ONE unit (C15 totality / node budget / cursor safety; C17 parser side later).
src/delta/parser.rs (parse, starts_declaration, 29 parse_* functions), src/delta/parser/tokens.rs (cursor),
src/delta/parser/parse_tree.rs (ParseTree::{empty, buffer, set_nodes_len}, ParseBuffer::*),
src/delta/lexer/tokens.rs (the read-only accessors of the lexer's Tokens used by the cursor)."""
import re
import os
from vlib import rules, rules_lexer as rl
from vlib.rsparse import LostAnchor
from units.delta_common import emit_nodes, tuple_pub
P = 'src/delta/parser.rs'
CT = 'src/delta/parser/tokens.rs'
PT = 'src/delta/parser/parse_tree.rs'
LT = 'src/delta/lexer/tokens.rs'
LX = 'src/delta/lexer.rs'
RLIMIT = 60
MULTIPLE_ERRORS = 6

LEX_TOKENS_FNS = ['base_tokens', 'base_tokens_from', 'base_tokens_of_span', 'get', 'advance', 'token_id', 'first_token_id',
                  'skip_until', 'get_value_type_and_payload', 'spans_multiple_tokens']


def r24_from_call(u, key, text):
    if 'Tokens::from(tokens)' in text:
        u.rules['R24-call'] += 1
        return text.replace('Tokens::from(tokens)', 'Tokens::from_lexed(tokens)')
    return text


def r9_reservation(u, key, text):
    """R9 (call site): `let mut tokens = tokens.with_reservation(CLOSURE); F(&mut tokens, buffer)?`  ->
    `let mut r9_tokens = tokens.reserve(CLOSURE); let r9_result = F(&mut r9_tokens, buffer); tokens.release(r9_tokens); r9_result?`
    (Verus ignores Drop; the drop of the guard is made explicit; reserve/release are generated from the real
    with_reservation / Drop::drop bodies by `r9_defs`)."""
    pat = re.compile(r'let mut tokens = tokens\.with_reservation\((.*?)\);\s*(\w+)\(&mut tokens, buffer\)\?', re.S)
    m = pat.search(text)
    if not m:
        return text
    u.rules['R9'] += 1
    new = ('let mut r9_tokens = tokens.reserve(%s);\n\t\t\t\tlet r9_result = %s(&mut r9_tokens, buffer);\n'
           '\t\t\t\ttokens.release(r9_tokens);\n\t\t\t\tr9_result?' % (m.group(1), m.group(2)))
    return text[:m.start()] + new + text[m.end():]


def r9_defs(u, key, text):
    """R9 (definitions): from the real `with_reservation` body make `reserve` (returns the temporary cursor instead of the
    guard struct)."""
    if not key.endswith(':: fn with_reservation'):
        return text
    t = text.replace('pub fn with_reservation', 'pub fn reserve')
    t = re.sub(r"&'a mut self", '&mut self', t)
    t = re.sub(r"-> TokensWithReservation<'a, 'b>", "-> Tokens<'b>", t)
    t2 = re.sub(r'TokensWithReservation\s*\{\s*source:\s*self,\s*temporary,\s*\}', 'temporary', t)
    if t2 == t:
        raise LostAnchor(key + ': R9 cannot find the guard construction')
    u.rules['R9-reserve-from-with_reservation'] += 1
    return t2


def drop_to_release(text):
    """R9: `impl Drop for TokensWithReservation { fn drop(&mut self) BODY }` -> `impl Tokens { pub fn release(&mut self, temporary: Tokens) BODY' }`
    with self.temporary := temporary and self.source := self."""
    m = re.search(r'fn drop\(&mut self\)\s*\{', text)
    if not m:
        raise LostAnchor('R9: Drop::drop not found')
    body = text[m.end() - 1:text.rindex('}')]
    body = body[:body.rindex('}') + 1]
    body = body.replace('self.temporary.', 'temporary.').replace('self.source.', 'self.')
    return "\tpub fn release(&mut self, temporary: Tokens<'b>)\n\t" + body + '\n'


def impl_to_free_fn(name):
    """emit a copy of a trait-impl method body as a free function (so that it can carry `requires`, which Verus forbids on
    trait impls) - the copy is what gets verified; the impl itself is marked external_body with the same ensures."""
    def f(text):
        m = re.search(r'fn from\(value: ([\w:]+)\) -> Self', text)
        return text
    return f


PBFRAME = ('final(final(%s).nodes)@ == final(old(%s).nodes)@ && final(final(%s).declarations)@ == final(old(%s).declarations)@'
           ' && final(%s).nodes@.len() == old(%s).nodes@.len(),')
K = 5   # nodes per token proved sufficient (node budget); the capacity formula of ParseTree::empty must provide it


def expand_static_contracts(u):
    import os
    src = open(os.path.join(u.verif, 'contracts/u_parse.vc')).read()
    src = re.sub(r'PBFRAME0\((\w+)\)', lambda m: PBFRAME % ((m.group(1),) * 6), src)
    src = re.sub(r'PBFRAME\((\w+)\)', lambda m: (PBFRAME % ((m.group(1),) * 6)) + '\n\tdecls_same(*old(%s), *final(%s)),' % (m.group(1), m.group(1)), src)
    src = src.replace('NODES_PER_TOKEN()', str(K))
    out = os.path.join(u.work, 'u_parse_static.vc')
    os.makedirs(os.path.dirname(out), exist_ok=True)
    open(out, 'w').write(src)
    u.load_contracts(os.path.join(u.work_rel, 'u_parse_static.vc'))



# ------------------------------------------------------------------------------------------------------------------
# Uniform contracts of the parse_* functions (generated into .work/u_parse_generated.vc on every run).
#   c        the function's constant in  "nodes pushed <= K * tokens consumed + c"   (Ok and Err alike)
#   progress the function consumes at least one token (needed for termination of the callers' loops)
#   unres    called only on an unreserved cursor (it opens a reservation itself or calls such a function)
#   recent   on Ok the returned node is the most recent node (Tokens::expect_most_recent_node's debug_assert)
#   loops    per loop ordinal: constant c of the loop invariant and extra invariant conjuncts
#   lists    ActiveList variables that are live across a loop (placeholder invariant)
# ------------------------------------------------------------------------------------------------------------------
RANK_ORDER = ['parse_declaration', 'parse_function_declaration', 'parse_constant_declaration', 'parse_word_declaration',
              'parse_struct_declaration', 'parse_import_declaration', 'parse_struct_members', 'parse_rest_of_function_signature',
              'parse_member', 'parse_parameter', 'parse_function_body', 'parse_rest_of_block', 'parse_then', 'parse_statement',
              'parse_comparison', 'parse_rest_of_arguments', 'parse_rest_of_structural', 'parse_expression', 'parse_addition',
              'parse_rest_of_bitwise_expression', 'parse_rest_of_bitshift_operation', 'parse_multiplication',
              'parse_singular_expression', 'parse_unary_expression', 'parse_primary_expression', 'parse_reference',
              'parse_deref_steps_list', 'parse_type', 'parse_inner_type']
UNRES = {'parse_statement', 'parse_then', 'parse_rest_of_block', 'parse_function_body', 'parse_function_declaration', 'parse_declaration'}
NO_PROGRESS = {'parse_deref_steps_list'}
STRICT = {'parse_addition', 'parse_multiplication', 'parse_singular_expression', 'parse_rest_of_bitwise_expression', 'parse_struct_members',
          'parse_rest_of_function_signature', 'parse_function_body', 'parse_primary_expression', 'parse_statement'}
TABLE = {
    'parse_declaration': dict(c=0, recent=False, zone='toggles', ens=['[C15.parse.parse_declaration.ok_only_at_declaration_start] r is Ok ==> is_decl_start(cur(*old(tokens))),']),
    'parse_import_declaration': dict(c=0, req=['[C17.parse.zone_matches_visibility] (old(buffer).active_private_zone is None) == has(flags, DeclarationFlag::Public),']),
    'parse_constant_declaration': dict(c=0, req=['[C17.parse.zone_matches_visibility] (old(buffer).active_private_zone is None) == has(flags, DeclarationFlag::Public),']),
    'parse_word_declaration': dict(c=0, req=['[C17.parse.zone_matches_visibility] (old(buffer).active_private_zone is None) == has(flags, DeclarationFlag::Public),', 'declaring_token is Word8 || declaring_token is Word16 || declaring_token is Word32 || declaring_token is Word64 || declaring_token is Word128,']),
    'parse_struct_declaration': dict(c=0, req=['[C17.parse.zone_matches_visibility] (old(buffer).active_private_zone is None) == has(flags, DeclarationFlag::Public),']),
    'parse_struct_members': dict(c=1 - K, recent=False, loops={0: dict(c=-K, lists=['list'])}),
    'parse_function_declaration': dict(c=0, recent=False, zone='toggles', req=['[C17.parse.zone_matches_visibility] (old(buffer).active_private_zone is None) == has(flags, DeclarationFlag::Public),'], ens=['[C17.parse.function_declaration_restores_zone_state] r is Ok ==> (final(buffer).active_private_zone is None) == has(flags, DeclarationFlag::Public),']),
    'parse_rest_of_function_signature': dict(c=2 - K, recent='pair1', loops={0: dict(c=-K, lists=['list'])}),
    'parse_member': dict(c=0),
    'parse_parameter': dict(c=0),
    'parse_type': dict(c=0),
    'parse_inner_type': dict(c=0, ens=['[C15.parse.parse_inner_type.one_node_per_token] final(buffer).num_nodes - old(buffer).num_nodes <= pos(*final(tokens)) - pos(*old(tokens)),']),
    'parse_function_body': dict(c=1 - K, recent='optpair', req=['[C17.parse.function_body_is_parsed_inside_a_private_zone] old(buffer).active_private_zone is Some,'], loops={0: dict(c=-K, lists=['list'])}),
    'parse_rest_of_block': dict(c=0, recent=False, loops={0: dict(c=0, lists=['list'])}),
    'parse_statement': dict(c=-1, loops={0: dict(c=0, extra=['1 <= depth <= 127,'])}, inserts=[
        ('before', 0, 'let r9_result = parse_comparison(&mut r9_tokens, buffer);',
         '\t\t\t\tlet ghost r9_lim = lim(r9_tokens); let ghost r9_p0 = pos(r9_tokens);'),
        ('before', 0, 'tokens.release(r9_tokens);', '\t\t\t\tlet ghost r9_t1 = r9_tokens;'),
        ('after', 0, 'tokens.release(r9_tokens);',
         '\t\t\t\tproof {\n\t\t\t\t\tif r9_result is Ok { lemma_clean_widen(toks(t0), r9_lim, lim(t0), r9_p0, pos(r9_t1)); }\n'
         '\t\t\t\t\tlemma_clean_widen(toks(t0), r9_lim, lim(t0), r9_p0, pos(r9_t1) - 1);\n\t\t\t\t}'),
    ]),
    'parse_rest_of_arguments': dict(c=1, recent=False, loops={0: dict(c=0, lists=['list'], brk=['pos(*tokens) > pos(t0),'])}),
    'parse_rest_of_structural': dict(c=1, recent=False, loops={0: dict(c=0, lists=['list'], brk=['pos(*tokens) > pos(t0),'])}),
    'parse_then': dict(c=0),
    'parse_comparison': dict(c=0),
    'parse_expression': dict(c=0),
    'parse_addition': dict(c=0, loops={0: dict(c=0, extra=['recent(*buffer, expression),'])}),
    'parse_rest_of_bitwise_expression': dict(c=0, loops={0: dict(c=-3, extra=['op_token == BaseToken::Ampersand || op_token == BaseToken::Pipe || op_token == BaseToken::Caret,'])}),
    'parse_rest_of_bitshift_operation': dict(c=0),
    'parse_multiplication': dict(c=0, loops={0: dict(c=0, extra=['recent(*buffer, expression),'])}),
    'parse_singular_expression': dict(c=0, loops={0: dict(c=0, extra=['recent(*buffer, expression),'])}),
    'parse_unary_expression': dict(c=0),
    'parse_primary_expression': dict(c=0, loops={0: dict(c=0, extra=['token == BaseToken::StringLiteral,']), 1: dict(c=0, extra=['1 <= depth <= 127,']),
                                                  2: dict(c=-K, lists=['list'], extra=['num_elements <= pos(*tokens) - pos(t0),'])}),
    'parse_reference': dict(c=0, loops={0: dict(c=0, extra=['1 <= address_depth <= 127,'])}),
    'parse_deref_steps_list': dict(c=1, recent=False, loops={0: dict(c=0, lists=['list'])}),
}
PROPH_FN = ('final(final(buffer).nodes)@ == final(old(buffer).nodes)@ && final(final(buffer).declarations)@ == final(old(buffer).declarations)@,')
PROPH_LOOP = ('final(buffer.nodes)@ == final(old(buffer).nodes)@ && final(buffer.declarations)@ == final(old(buffer).declarations)@,')


def gen_parse_contracts(u):
    import os
    src = u.source(P)
    out = ['## GENERATED by units/u_parse.py from TABLE on every run - do not edit']
    for it in src.items:
        if it.kind != 'fn' or it.name not in TABLE:
            continue
        n = it.name
        d = TABLE[n]
        rank = 100 - RANK_ORDER.index(n)
        rec = d.get('recent', True)
        out.append('=== fn fn %s' % n)
        out.append('ret r')
        out.append('requires')
        out.append('\t[C15.parse.entry_condition] pre(*old(tokens), *old(buffer)),')
        if n in UNRES:
            out.append('\t[C15.parse.cursor_unreserved] unreserved(*old(tokens)),')
        for q in d.get('req', []):
            out.append('\t' + q)
        out.append('ensures')
        out.append('\t[C15.parse.%s.exit_condition_and_node_budget] post(*old(tokens), *old(buffer), *final(tokens), *final(buffer), %d),' % (n, d['c']))
        out.append('\t[C15.parse.%s.ok_leaves_cursor_live] r is Ok ==> post_ok(*old(tokens), *final(tokens)),' % n)
        if n not in NO_PROGRESS:
            out.append('\t[C15.parse.%s.progress] pos(*final(tokens)) > pos(*old(tokens)),' % n)
        if rec is True:
            out.append('\t[C15.parse.%s.returns_most_recent_node] r is Ok ==> recent(*final(buffer), r->Ok_0),' % n)
        elif rec == 'pair1':
            out.append('\t[C15.parse.%s.returns_most_recent_node] r is Ok ==> recent(*final(buffer), r->Ok_0.1) && u24v(r->Ok_0.0.0) < final(buffer).num_nodes,' % n)
        elif rec == 'optpair':
            out.append('\t[C15.parse.%s.returns_most_recent_node] r is Ok ==> u24v(r->Ok_0.0.0) < final(buffer).num_nodes && (r->Ok_0.1 is Some ==> recent(*final(buffer), r->Ok_0.1->0)),' % n)
        else:
            out.append('\t[C15.parse.%s.returns_existing_node] r is Ok ==> u24v(r->Ok_0.0) < final(buffer).num_nodes,' % n)
        for e in d.get('ens', []):
            out.append('\t' + e)
        if d.get('zone', 'same') == 'same':
            out.append('\t[C17.parse.%s.private_zone_state_untouched] final(buffer).active_private_zone == old(buffer).active_private_zone,' % n)
        out.append('\tdecls_same(*old(buffer), *final(buffer)),')
        out.append('\t' + PROPH_FN)
        out.append('decreases rem(*old(tokens)), %dint' % rank)
        out.append('--- body_prefix')
        out.append('\tlet ghost t0 = *tokens; let ghost b0 = *buffer;')
        if n in ('parse_declaration', 'parse_function_declaration'):
            pass
        head, ret, where, body = __import__('vlib.rsparse', fromlist=['x']).fn_signature_split(it.text)
        loops = __import__('vlib.rsparse', fromlist=['x']).find_loops(body)
        for k, (kw, hdr, bo) in enumerate(loops):
            ld = d.get('loops', {}).get(k, dict(c=0))
            out.append('--- loop %d | %s' % (k, hdr))
            inv = ['t0 == *old(tokens), b0 == *old(buffer), linv(t0, b0, *tokens, *buffer, %d),' % ld.get('c', 0)]
            if n in UNRES:
                inv.append('unreserved(*tokens),')
            for l in ld.get('lists', []):
                inv.append('list_in(b0, *buffer, %s),' % l)
            inv += ld.get('extra', [])
            if n in STRICT:
                inv.append('pos(*tokens) > pos(t0),')
            if d.get('zone', 'same') == 'same':
                inv.append('buffer.active_private_zone == b0.active_private_zone,')
            inv.append('decls_same(b0, *buffer),')
            inv.append(PROPH_LOOP)
            if 'brk' in ld:
                # the loop is left only through `break`: what holds there is stated as the loop's ensures
                out.append('invariant_except_break')
                out += ['\t' + x for x in inv]
                out.append('ensures')
                out += ['\t' + x for x in inv + ld['brk']]
            else:
                out.append('invariant')
                out += ['\t' + x for x in inv]
            if not hdr.startswith('for '):
                out.append('decreases rem(*tokens)')
        for (w, nth, anchor, text) in d.get('inserts', []):
            out.append('--- %s %d | %s' % (w, nth, anchor))
            out.append(text)
        out.append('')
    path = os.path.join(u.work, 'u_parse_generated.vc')
    open(path, 'w').write('\n'.join(out))
    u.load_contracts(os.path.join(u.work_rel, 'u_parse_generated.vc'))


def build(u):
    expand_static_contracts(u)
    import os as _o
    if _o.environ.get('U_PARSE_STAGE', '') != 'B':
        gen_parse_contracts(u)
    emit_nodes(u, convert=False)
    u.include('prelude/usize_minmax.rs')
    u.include('prelude/parse_strum.rs')
    u.include('prelude/parse_std.rs')
    u.include('prelude/slice_count.rs')
    # ---- lexer side (read-only accessors)
    u.emit(LX, 'enum BaseToken')
    u.raw('pub mod lexer { use super::*; pub use super::BaseToken; pub use super::ValueTypeKeyword;\npub mod tokens { use super::*; use vstd::prelude::*; use vstd::std_specs::cmp::{PartialEqSpec, PartialEqSpecImpl};')
    u.emit(LT, 'struct ValueTypeAndPayloadId', pub_fields=True)
    u.emit(LT, 'struct TokenId', pre=lambda t: t.replace('struct TokenId(u32)', 'struct TokenId(pub u32)'))
    u.emit(LT, 'struct PayloadId', pre=lambda t: t.replace('struct PayloadId(u32)', 'struct PayloadId(pub u32)'))
    u.emit(LT, 'type Span')
    u.emit(LT, 'struct Tokens', pub_fields=True)
    u.raw('pub type LexingError = u8; /* opaque here: the parser never looks at lexing errors */')
    u.raw('#[verifier::external_body] pub struct TokenLocation { _p: u8 }')
    u.include('spec/ltok_ok_spec.rs', kind='spec')
    u.include('spec/u_parse_lex_spec.rs', kind='spec')
    u.emit(LT, 'impl ValueTypeAndPayloadId', only=['value_type'])
    u.emit(LT, 'impl Tokens #1', only=LEX_TOKENS_FNS, rules=[rules.r20_param_patterns])
    u.emit(LT, 'impl From<TokenId> for parse_node::TokenId', pre=lambda t: t.replace('parse_node::', 'crate::'))
    u.emit(LT, 'impl From<TokenId> for usize')
    u.raw('} }\nuse lexer::tokens::Span;')
    # ---- parser types
    u.emit(P, 'const MAX_ADDRESS_DEPTH')
    u.emit(P, 'const MAX_REFERENCE_DEPTH')
    u.emit(P, 'enum ParsingError')
    u.emit(PT, 'const MAX_NUM_PARSING_ERRORS')
    u.emit(PT, 'const MAX_PARSE_NODE_CONTEXT')
    u.emit(PT, 'struct ParseTree', pub_fields=True)
    u.emit(PT, 'struct ParseBuffer', pub_fields=True)
    u.emit(PT, 'struct ActiveList', pub_fields=True)
    u.emit(PT, 'struct UnfinishedImpl', pub_fields=True)
    u.emit(CT, 'struct Tokens', pub_fields=True)
    u.raw('use ParseNode::UnpatchedListItem;\nuse BaseToken::EndOfSource;')
    import os as _os
    _sp = open(_os.path.join(u.verif, 'spec/u_parse_spec.rs')).read().replace('KKK', str(K))
    open(_os.path.join(u.work, 'u_parse_spec_k.rs'), 'w').write(_sp)
    u.include(_os.path.join(u.work_rel, 'u_parse_spec_k.rs'), kind='spec')
    u.include('spec/u_hdr_spec.rs', kind='spec')
    # ---- node buffer (real code)
    RB = [rules.r13_assert_eq, rules.r19_with_capacity, rules.r21_cmp_minmax, rules.r20_param_patterns, rules.r23_push_within_capacity('self.declarations')]
    u.emit(PT, 'impl ParseTree #0', rules=RB, pre=lambda t: t.replace('tokens: &Tokens,', 'tokens: &lexer::tokens::Tokens,'))
    u.notes.append('parse_tree.rs imports the lexer Tokens unqualified; in the single-file unit the name is qualified (lexer::tokens::Tokens)')
    u.emit(PT, "impl<'buffer> ParseBuffer<'buffer>", rules=RB)
    # ---- cursor (real code)
    # R24: trait impls cannot carry `requires`; the From impl is emitted as an inherent constructor (same body) and the one
    # statically dispatched call `Tokens::from(tokens)` in `parse` is redirected to it, so the body is verified under the
    # precondition and the precondition is checked at the call.
    def from_to_inherent(t):
        t2 = re.sub(r"(?m)^impl<'a> From<&'a lexer::tokens::Tokens> for Tokens<'a>", "impl<'a> Tokens<'a>", t, count=1).replace('fn from(', 'pub fn from_lexed(')
        if t2 == t:
            raise LostAnchor('R24: From impl of the cursor not in the expected form')
        u.rules['R24'] += 1
        return t2
    u.emit(CT, "impl<'a> From<&'a lexer::tokens::Tokens> for Tokens<'a>", pre=from_to_inherent, widen=False)
    u.emit(CT, "impl<'a> Tokens<'a> #0")
    u.emit(CT, "impl<'a, 'b: 'a> Tokens<'b>", rules=[r9_defs])
    u.emit(CT, "impl<'a> Tokens<'a> #1")
    src = u.source(CT)
    drop_item = src.find("impl<'a, 'b: 'a> Drop for TokensWithReservation<'a, 'b>")
    rkey = 'impl Drop for TokensWithReservation :: fn drop (as release)'
    rtext = drop_to_release(drop_item.text)
    rc = u.contracts.get(rkey)
    if rc is not None:
        rc.used = True
        rtext = u._splice(rkey, rtext, rc)
    u.fns.append((rkey, CT, drop_item.lines[0], drop_item.lines[1], rc is not None))
    u.raw("impl<'b> Tokens<'b>\n{\n//@fn %s | %s:%d-%d\n%s\n//@endfn\n}" % (rkey, CT, drop_item.lines[0], drop_item.lines[1], rtext))
    u.rules['R9-release-from-Drop::drop'] += 1
    # ---- the parser
    R = [rules.r13_assert_eq, r9_reservation, rules.flatten_paths(['parse_node']), rules.r22_filter_count('|t: BaseToken| is_decl_start(t)'), r24_from_call]
    src = u.source(P)
    import os
    stage = os.environ.get('U_PARSE_STAGE', '')
    for it in src.items:
        if stage == 'B':
            break
        if it.kind == 'fn' and (it.name.startswith('parse') or it.name == 'starts_declaration'):
            u.emit(P, 'fn ' + it.name, rules=R)
