"""U-PARSE: the whole delta parser in ONE unit (C15 totality / node budget / cursor safety; C17 parser side later).
src/delta/parser.rs (parse, starts_declaration, 29 parse_* functions), src/delta/parser/tokens.rs (cursor),
src/delta/parser/parse_tree.rs (ParseTree::{empty, buffer, set_nodes_len}, ParseBuffer::*),
src/delta/lexer/tokens.rs (the read-only accessors of the lexer's Tokens used by the cursor)."""
import re
from vlib import rules, rules_lexer as rl
from vlib.rsparse import LostAnchor
from units.delta_common import emit_nodes, tuple_pub
P = 'src/delta/parser.rs'
CT = 'src/delta/parser/tokens.rs'
PT = 'src/delta/parser/parse_tree.rs'
LT = 'src/delta/lexer/tokens.rs'
LX = 'src/delta/lexer.rs'
RLIMIT = 60
MULTIPLE_ERRORS = 6

LEX_TOKENS_FNS = ['base_tokens', 'base_tokens_from', 'base_tokens_of_span', 'get', 'advance', 'token_id', 'first_token_id',
                  'skip_until', 'get_value_type_and_payload', 'spans_multiple_tokens']


def r9_reservation(u, key, text):
    """R9 (call site): `let mut tokens = tokens.with_reservation(CLOSURE); F(&mut tokens, buffer)?`  ->
    `let mut r9_tokens = tokens.reserve(CLOSURE); let r9_result = F(&mut r9_tokens, buffer); tokens.release(r9_tokens); r9_result?`
    (Verus ignores Drop; the drop of the guard is made explicit; reserve/release are generated from the real
    with_reservation / Drop::drop bodies by `r9_defs`)."""
    pat = re.compile(r'let mut tokens = tokens\.with_reservation\((.*?)\);\s*(\w+)\(&mut tokens, buffer\)\?', re.S)
    m = pat.search(text)
    if not m:
        return text
    u.rules['R9'] += 1
    new = ('let mut r9_tokens = tokens.reserve(%s);\n\t\t\t\tlet r9_result = %s(&mut r9_tokens, buffer);\n'
           '\t\t\t\ttokens.release(r9_tokens);\n\t\t\t\tr9_result?' % (m.group(1), m.group(2)))
    return text[:m.start()] + new + text[m.end():]


def r9_defs(u, key, text):
    """R9 (definitions): from the real `with_reservation` body make `reserve` (returns the temporary cursor instead of the
    guard struct)."""
    if not key.endswith(':: fn with_reservation'):
        return text
    t = text.replace('pub fn with_reservation', 'pub fn reserve')
    t = re.sub(r"&'a mut self", '&mut self', t)
    t = re.sub(r"-> TokensWithReservation<'a, 'b>", "-> Tokens<'b>", t)
    t2 = re.sub(r'TokensWithReservation\s*\{\s*source:\s*self,\s*temporary,\s*\}', 'temporary', t)
    if t2 == t:
        raise LostAnchor(key + ': R9 cannot find the guard construction')
    u.rules['R9-reserve-from-with_reservation'] += 1
    return t2


def drop_to_release(text):
    """R9: `impl Drop for TokensWithReservation { fn drop(&mut self) BODY }` -> `impl Tokens { pub fn release(&mut self, temporary: Tokens) BODY' }`
    with self.temporary := temporary and self.source := self."""
    m = re.search(r'fn drop\(&mut self\)\s*\{', text)
    if not m:
        raise LostAnchor('R9: Drop::drop not found')
    body = text[m.end() - 1:text.rindex('}')]
    body = body[:body.rindex('}') + 1]
    body = body.replace('self.temporary.', 'temporary.').replace('self.source.', 'self.')
    return "\tpub fn release(&mut self, temporary: Tokens<'b>)\n\t" + body + '\n'


def impl_to_free_fn(name):
    """emit a copy of a trait-impl method body as a free function (so that it can carry `requires`, which Verus forbids on
    trait impls) - the copy is what gets verified; the impl itself is marked external_body with the same ensures."""
    def f(text):
        m = re.search(r'fn from\(value: ([\w:]+)\) -> Self', text)
        return text
    return f


PBFRAME = ('final(final(%s).nodes)@ == final(old(%s).nodes)@ && final(final(%s).declarations)@ == final(old(%s).declarations)@'
           ' && final(%s).nodes@.len() == old(%s).nodes@.len(),')
K = 6   # nodes per token proved sufficient (node budget); the capacity formula of ParseTree::empty must provide it


def expand_static_contracts(u):
    import os
    src = open(os.path.join(u.verif, 'contracts/u_parse.vc')).read()
    src = re.sub(r'PBFRAME\((\w+)\)', lambda m: PBFRAME % ((m.group(1),) * 6), src)
    src = src.replace('NODES_PER_TOKEN()', str(K))
    out = os.path.join(u.verif, '.work', 'u_parse_static.vc')
    os.makedirs(os.path.dirname(out), exist_ok=True)
    open(out, 'w').write(src)
    u.load_contracts('.work/u_parse_static.vc')


def build(u):
    expand_static_contracts(u)
    emit_nodes(u, convert=False)
    u.include('prelude/usize_minmax.rs')
    u.include('prelude/parse_strum.rs')
    u.include('prelude/parse_std.rs')
    u.include('prelude/slice_count.rs')
    # ---- lexer side (read-only accessors)
    u.emit(LX, 'enum BaseToken')
    u.raw('pub mod lexer { use super::*; pub use super::BaseToken; pub use super::ValueTypeKeyword;\npub mod tokens { use super::*; use vstd::prelude::*; use vstd::std_specs::cmp::{PartialEqSpec, PartialEqSpecImpl};')
    u.emit(LT, 'struct ValueTypeAndPayloadId', pub_fields=True)
    u.emit(LT, 'struct TokenId', pre=lambda t: t.replace('struct TokenId(u32)', 'struct TokenId(pub u32)'))
    u.emit(LT, 'struct PayloadId', pre=lambda t: t.replace('struct PayloadId(u32)', 'struct PayloadId(pub u32)'))
    u.emit(LT, 'type Span')
    u.emit(LT, 'struct Tokens', pub_fields=True)
    u.raw('pub type LexingError = u8; /* opaque here: the parser never looks at lexing errors */')
    u.raw('#[verifier::external_body] pub struct TokenLocation { _p: u8 }')
    u.include('spec/u_parse_lex_spec.rs', kind='spec')
    u.emit(LT, 'impl ValueTypeAndPayloadId', only=['value_type'])
    u.emit(LT, 'impl Tokens #1', only=LEX_TOKENS_FNS, rules=[rules.r20_param_patterns])
    u.emit(LT, 'impl From<TokenId> for parse_node::TokenId', pre=lambda t: t.replace('parse_node::', 'crate::'))
    u.emit(LT, 'impl From<TokenId> for usize')
    u.raw('} }\nuse lexer::tokens::Span;')
    # ---- parser types
    u.emit(P, 'const MAX_ADDRESS_DEPTH')
    u.emit(P, 'const MAX_REFERENCE_DEPTH')
    u.emit(P, 'enum ParsingError')
    u.emit(PT, 'const MAX_NUM_PARSING_ERRORS')
    u.emit(PT, 'const MAX_PARSE_NODE_CONTEXT')
    u.emit(PT, 'struct ParseTree', pub_fields=True)
    u.emit(PT, 'struct ParseBuffer', pub_fields=True)
    u.emit(PT, 'struct ActiveList', pub_fields=True)
    u.emit(PT, 'struct UnfinishedImpl', pub_fields=True)
    u.emit(CT, 'struct Tokens', pub_fields=True)
    u.raw('use ParseNode::UnpatchedListItem;\nuse BaseToken::EndOfSource;')
    u.include('spec/u_parse_spec.rs', kind='spec')
    # ---- node buffer (real code)
    RB = [rules.r13_assert_eq, rules.r19_with_capacity, rules.r21_cmp_minmax, rules.r20_param_patterns, rules.r23_push_within_capacity('self.declarations')]
    u.emit(PT, 'impl ParseTree #0', rules=RB, pre=lambda t: t.replace('tokens: &Tokens,', 'tokens: &lexer::tokens::Tokens,'))
    u.notes.append('parse_tree.rs imports the lexer Tokens unqualified; in the single-file unit the name is qualified (lexer::tokens::Tokens)')
    u.emit(PT, "impl<'buffer> ParseBuffer<'buffer>", rules=RB)
    # ---- cursor (real code)
    u.emit(CT, "impl<'a> From<&'a lexer::tokens::Tokens> for Tokens<'a>")
    u.emit(CT, "impl<'a> Tokens<'a> #0")
    u.emit(CT, "impl<'a, 'b: 'a> Tokens<'b>", rules=[r9_defs])
    u.emit(CT, "impl<'a> Tokens<'a> #1")
    src = u.source(CT)
    drop_item = src.find("impl<'a, 'b: 'a> Drop for TokensWithReservation<'a, 'b>")
    rkey = 'impl Drop for TokensWithReservation :: fn drop (as release)'
    rtext = drop_to_release(drop_item.text)
    rc = u.contracts.get(rkey)
    if rc is not None:
        rc.used = True
        rtext = u._splice(rkey, rtext, rc)
    u.fns.append((rkey, CT, drop_item.lines[0], drop_item.lines[1], rc is not None))
    u.raw("impl<'b> Tokens<'b>\n{\n//@fn %s | %s:%d-%d\n%s\n//@endfn\n}" % (rkey, CT, drop_item.lines[0], drop_item.lines[1], rtext))
    u.rules['R9-release-from-Drop::drop'] += 1
    # ---- the parser
    R = [rules.r13_assert_eq, r9_reservation, rules.flatten_paths(['parse_node']), rules.r22_filter_count]
    src = u.source(P)
    import os
    stage = os.environ.get('U_PARSE_STAGE', '')
    for it in src.items:
        if stage == 'B':
            break
        if it.kind == 'fn' and (it.name.startswith('parse') or it.name == 'starts_declaration'):
            u.emit(P, 'fn ' + it.name, rules=R)
