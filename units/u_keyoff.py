"""U-KEYOFF: src/alpha/expander.rs `get_key_offset` (C12: import path resolution: the key that IS the requested path,
else the key that IS the includer's directory joined with the requested path, first occurrence, else None).

std::path is modelled abstractly (prelude/keyoff_path.rs: opaque Path/PathBuf, uninterpreted path_of / parent_of /
joined / ends_with); `.iter().position(closure)` goes to the verified helper slice_position (prelude/slice_position.rs)
and the Option adapter chain `or_else / map / and_then` to `match` (units/u_keyoff_rules.py)."""
from units.u_keyoff_rules import r_iter_position, r_option_adapters, r_std_path

X = 'src/alpha/expander.rs'

# closure contracts of the two lookups, chosen by the variable the closure compares with (checked by Verus against the
# real closure bodies): `path` = includer's directory joined with the requested path, `filepath` = the requested path
LOOKUPS = [
    ('path', 'b == (x@ == path@)', 'C12.keyoff.lookup_of_relative_path_tests_equality'),
    ('filepath', 'b == (x@ == *filepath)', 'C12.keyoff.lookup_of_requested_path_tests_equality'),
]


def build(u):
    u.load_contracts('contracts/u_keyoff.vc')
    u.include('prelude/keyoff_path.rs')
    u.include('prelude/slice_position.rs')
    u.opaque += ['std::path::Path', 'std::path::PathBuf']
    u.include('spec/u_keyoff_spec.rs', kind='spec')
    u.emit(X, 'fn get_key_offset', rules=[r_std_path, r_iter_position('PathBuf', LOOKUPS), r_option_adapters])
