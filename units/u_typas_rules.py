"""Rewrite rules used only by unit U-TYPAS.  Same conventions as vlib/rules.py: local, syntactic, counted in `unit.rules`."""
import re
from vlib import rsparse
from vlib.rsparse import LostAnchor, tokenize


def ts1_bounded_for_with_break(u, key, text):
    """TS1: `for _i in 0..BOUND { BODY }` whose body may `break` and never reads `_i`  ->
         let mut ts1_i: u8 = 0; while ts1_i < BOUND { ts1_i = ts1_i + 1; BODY }
    The counter only bounds the number of iterations, exactly as the range does; BODY is kept verbatim.  (Verus verifies a `for`
    with `break`, but nothing that holds at the `break` is known after the loop; a `while` carries loop `ensures`.)"""
    n = 0
    while True:
        m = re.search(r'for\s+_i\s+in\s+0\.\.(MAX_ADDRESS_DEPTH)\s*\{', text)
        if not m:
            break
        rest = text[m.end() - 1:]
        toks = tokenize(rest)
        match = rsparse.match_brackets_lenient(toks)
        body = rest[toks[0].end:toks[match[0]].start]
        if re.search(r'\b_i\b', body) or re.search(r'\bcontinue\b', body):
            raise LostAnchor('%s: TS1 body reads the counter or continues' % key)
        text = text[:m.start()] + 'let mut ts1_i: u8 = 0;\n\t\t\t\twhile ts1_i < %s\n\t\t\t\t{\n\t\t\t\t\tts1_i = ts1_i + 1;' % m.group(1) + rest[toks[0].end:]
        u.rules['TS1-bounded-for-with-break'] += 1
        n += 1
    return text


def ts2_into_iter_loop(u, key, text):
    """TS2: `for step in previous_steps.into_iter() {` -> `let mut ts2_in = previous_steps; ts2_in.reverse(); while let Some(step) = ts2_in.pop() {`
    (the elements in order, each moved out once; body verbatim; as rule R1 without the collect)"""
    text, n = re.subn(r'for\s+step\s+in\s+previous_steps\.into_iter\(\)\s*\{',
                      'let mut ts2_in = previous_steps;\n\tts2_in.reverse();\n\twhile let Some(step) = ts2_in.pop()\n\t{', text)
    if n:
        u.rules['TS2-into_iter-loop'] += n
    return text


def ts3_try_into_u8(u, key, text):
    """TS3: `excess.try_into().unwrap_or(MAX_ADDRESS_DEPTH)` (usize -> u8) -> `usize_to_u8_or(excess, MAX_ADDRESS_DEPTH)`
    (verified helper of prelude/typas_helpers.rs; std: TryFrom<usize> for u8 succeeds exactly when the value fits)"""
    text, n = re.subn(r'(\w+)\.try_into\(\)\.unwrap_or\((\w+)\)', r'usize_to_u8_or(\1, \2)', text)
    if n:
        u.rules['TS3-try_into-u8'] += n
    return text
