"""U-PSPAN4 (C13) - fourth sister unit of U-PSPAN: parse_function_body, parse_member, parse_parameter, parse_struct_members,
parse_rest_of_function_signature, parse_word_declaration, parse_struct_declaration, parse_constant_declaration,
parse_function_declaration, parse_import, parse_quoted_path, parse_declaration, skip_until_next_declaration and can_start_declaration of src/alpha/parser.rs (and Statement::location of common.rs) VERIFIED under the span contract (contracts/u_pspan.vc for
the cursor and the sister functions, contracts/u_pspan4.vc and spec/u_pspan4_spec.rs for these); the nineteen parse functions of the sister units are
external with the contract text that U-PSPAN / U-PSPAN2 / U-PSPAN3 prove.  Rules PS3 (`?` into Poison written out), PS4 (map_err(|e| e.into()) written out), PS5 (unwrap_or_else(|| E) written out), PS6 (String::from_utf8 through a trusted wrapper)."""
import os
from units import u_pspan
from vlib import rules
from units.u_plit import C, E
from units import u_pspan_rules as PR
from units.u_align import import_contracts
RLIMIT = 40


def types(u):
    u.load_contracts('contracts/u_pspan4.vc')
    import_contracts(u, 'contracts/u_scope.vc', ['impl From<Error> for Poison :: fn from'])
    u.emit(C, 'struct FunctionBody', derive_drop=['Clone'])
    u.emit(C, 'struct Member', derive_drop=['Clone'])
    u.emit(C, 'struct Parameter', derive_drop=['Clone'])
    u.emit(E, 'impl From<Error> for Poison')
    u.raw('//@prelude FromSpecImpl<Error> for Poison restates the From impl verified just above\n'
          'impl vstd::std_specs::convert::FromSpecImpl<Error> for Poison {\n\topen spec fn obeys_from_spec() -> bool { true }\n'
          '\topen spec fn from_spec(v: Error) -> Self { Poison::Error(v) }\n}\n//@end')
    # the trusted model of the third-party EnumSet (part (1) of prelude/export_enumset.rs: an opaque set of flags; the span contracts never look into it)
    es = open(os.path.join(u.verif, 'prelude/export_enumset.rs')).read()
    u.raw('//@prelude prelude/export_enumset.rs part (1): EnumSet<T>\n' + es[:es.index('// (2) Opaque stand-ins')] + '\n//@end')
    u.emit(C, 'enum DeclarationFlag')
    u.emit(C, 'enum Declaration', derive_drop=['Clone'])
    u.include('spec/u_pspan4_spec.rs', kind='spec')
    u.emit(C, 'impl Statement', only=['location'])


def build(u):
    u_pspan.build_with(u, (), extra=('parse_function_body', 'parse_member', 'parse_parameter', 'parse_struct_members', 'parse_rest_of_function_signature',
                              'parse_word_declaration', 'parse_constant_declaration', 'parse_struct_declaration',
                              'can_start_declaration', 'skip_until_next_declaration', 'parse_function_declaration',
                              'parse_quoted_path', 'parse_import', 'parse_declaration'), extra_types=types, extra_rules=[rules.only_for(['fn parse_function_body'], PR.ps3_question_into_poison), PR.ps4_map_err_into, PR.ps5_unwrap_or_else, PR.ps6_from_utf8])
