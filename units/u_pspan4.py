"""U-PSPAN4 (C13) - fourth sister unit of U-PSPAN: parse_function_body of src/alpha/parser.rs (and Statement::location of common.rs) VERIFIED under
the span contract (contracts/u_pspan.vc, spec/u_pspan_spec.rs); the nineteen parse functions of the sister units are external with the contract
text that U-PSPAN / U-PSPAN2 / U-PSPAN3 prove."""
from units import u_pspan
from units.u_plit import C, E
from units import u_pspan_rules as PR
from units.u_align import import_contracts
RLIMIT = 40


def types(u):
    u.load_contracts('contracts/u_pspan4.vc')
    import_contracts(u, 'contracts/u_scope.vc', ['impl From<Error> for Poison :: fn from'])
    u.emit(C, 'struct FunctionBody', derive_drop=['Clone'])
    u.emit(E, 'impl From<Error> for Poison')
    u.raw('//@prelude FromSpecImpl<Error> for Poison restates the From impl verified just above\n'
          'impl vstd::std_specs::convert::FromSpecImpl<Error> for Poison {\n\topen spec fn obeys_from_spec() -> bool { true }\n'
          '\topen spec fn from_spec(v: Error) -> Self { Poison::Error(v) }\n}\n//@end')
    u.include('spec/u_pspan4_spec.rs', kind='spec')
    u.emit(C, 'impl Statement', only=['location'])


def build(u):
    u_pspan.build_with(u, (), extra=('parse_function_body',), extra_types=types, extra_rules=[PR.ps3_question_into_poison])
