"""U-TYPST (C07: no implicit conversions) - the statement layer of the typer on top of the symbol table (U-SYM).
  src/alpha/typer.rs   trait Typed, `impl Typed for Expression`, `impl Typed for FunctionBody`   (the type an expression reports)
                       `impl Analyzable for Statement` (whole function: declarations and assignments are specified, the other arms only keep the table well formed)
                       infer_for_declaration, filter_for_naked_integer, filter_for_bit_integer
                       the symbol-table functions of U-SYM (re-verified under their U-SYM contracts, imported verbatim)
  src/alpha/common.rs  Expression::location, Identifier::inferred
The sub-expression analysis stays outside: prelude/typst_callees.rs gives Expression / Comparison / Block / ReferenceStep /
Poisonable<ValueType> :: analyze, Typer::get_type_of_reference, Typer::analyze_function_arguments and analyze_builtin an external
body with an assumed contract (uninterpreted effect functions + three thin facts)."""
from units.u_align import emit_types, import_contracts, VT_IMPL
from units.u_vt import r25_deref_box_eq
from units.u_extern_rules import r_assert_message
from vlib import vc, rules
from units import u_typst_rules as tyr
import os

C = 'src/alpha/common.rs'
E = 'src/alpha/error.rs'
T = 'src/alpha/typer.rs'

VT_FNS = ['is_wellformed', 'is_wellformed_element', 'is_wellformed_inner', 'can_be_element',
          'can_be_concretization_of', 'is_like', 'can_be_declared_as', 'can_coerce_into', 'equals', 'is_alias_of',
          'for_string_literal', 'pointer_depth', 'add_pointer_depth', 'fully_dereferenced']
SYM_FNS = ['put_symbol', 'poison_symbol', 'get_symbol', 'get_valid_declaration']


def inject(after_brace_text):
    def f(text):
        i = text.index('{')
        return text[:i + 1] + '\n' + after_brace_text + text[i + 1:]
    return f


def specs(pre, post):
    return inject('\topen spec fn pre(self, t: Typer) -> bool { %s }\n'
                  '\topen spec fn post(self, r: Self, t0: Typer, t1: Typer) -> bool { %s }' % (pre, post))


def build(u):
    u.load_contracts('contracts/u_typst.vc')
    sym = vc.parse(os.path.join(u.verif, 'contracts/u_sym.vc'))
    import_contracts(u, 'contracts/u_sym.vc', ['fn do_update_symbol', 'impl Identifier :: fn inferred', 'impl From<Error> for Poison :: fn from',
                                               'impl PartialEq for Identifier :: fn eq'] + ['impl Typer :: fn %s' % f for f in SYM_FNS])
    u.notes += [
        'ASSUMED callee contracts (prelude/typst_callees.rs, external bodies): Expression::analyze, Poisonable<ValueType>::analyze (analyze_type), Comparison::analyze, Block::analyze, '
        'ReferenceStep::analyze, Typer::get_type_of_reference, Typer::analyze_function_arguments, analyze_builtin.  Assumed of each: result and state left are a function of the arguments and of the '
        'abstract typer state (views of the tables + contextual type); every recorded type stays well formed.  Assumed of Expression::analyze and analyze_type: a reported type is well formed.  '
        'Assumed of Expression::analyze: an expression that reports a type is not an automatic coercion of a poisoned expression (Expression::location is unreachable!() there)',
        'caller obligation (precondition of Statement::analyze): every type recorded in the symbol table is well formed',
        'callees VERIFIED IN OTHER UNITS, external bodies here with the contract they are verified against there (same oracle text): Typer::get_type_of_reference (U-TYPREF: the answer is '
        'type_of_place of the reference; the uninterpreted gtr_type / gtr_ref are pinned to it) and analyze_assignment_steps (U-TYPAS: as_fold / as_finish; as_steps / as_state pinned to it).  '
        'Their preconditions become caller obligations of Statement::analyze / analyze_assignment: gtr_pre (every structure the assigned place passes through has been declared) and as_pre (walking the '
        'steps from the recorded type of the base meets no unreachable!()).  as_pre FOLLOWS from "the place has a type" in the table state of get_type_of_reference (theorem_typed_place_can_be_walked, '
        'U-TYPAS) but is needed after the value and the index expressions were analysed (uninterpreted effects on the table), so it cannot be discharged here',
        'the symbol-table functions are re-verified here under the contracts of contracts/u_sym.vc (imported verbatim), the value_type.rs predicates under those of contracts/u_vt.vc',
        'trusted: as U-SYM (HashMap::get_mut spec, Result::clone spec, vstd HashMap/Option/Result/String specs, derived Clone identity, derived PartialEq of ValueType is teq)',
        'opaque: Location, lexer::Error, DeclarationFlag, EnumSet<T>',
        'arms of Statement::analyze other than Declaration / Assignment (calls, if, block, jumps) are verified only to keep the table well formed',
        'caller obligation aa_obligations (precondition of Reference::analyze_assignment and, through stmt_pre, of Statement::analyze): only the size regime "pointer depth of the value type < 2^64" '
        '(pointer_depth() counts in a usize).  The assert!(..is_wellformed()) sites of the assignment path are PROVED unreachable: the type put for the base variable and the type put for the member are '
        'guarded (replaced by the type of the value when the built type is not well formed; former finding D22), the assert on the assignee type of E507 is gone (former finding D23)',
        'verified helpers (not trusted): steps_last_member (prelude/typst_helpers.rs, rule TY1), slice_rposition / slice_position (prelude/slice_position.rs, rule TY3), index loop of rule TY2; '
        'lemma_last_member_char ties the member found by iter().rev().find_map(get_member) to the index found by iter().rposition(is member)',
        'trusted in addition to U-SYM: [T]::reverse spec (rule R1), vstd specs of Vec::as_slice and range indexing of a Vec (`&steps[(i + 1)..]`, `&steps[..]`)',
    ]
    plain_emit = u.emit

    def emit_with_r25(rel, spec, **kw):
        if spec == VT_IMPL:
            kw['rules'] = list(kw.get('rules', ())) + [r25_deref_box_eq]
        return plain_emit(rel, spec, **kw)
    u.emit = emit_with_r25
    try:
        emit_types(u, VT_FNS)
    finally:
        del u.emit
    u.opaque += ['DeclarationFlag', 'EnumSet<T>']
    u.include('prelude/sym_std.rs')
    u.include('prelude/typst_opaque.rs')
    for it in ['enum BinaryOp', 'enum UnaryOp', 'enum ComparisonOp', 'enum Builtin']:
        u.emit(C, it)
    for it in ['struct Array', 'struct MemberExpression', 'enum Expression', 'enum DesliceOffset', 'enum ReferenceStep', 'struct Reference',
               'struct Comparison', 'struct Else', 'enum Statement', 'struct Block', 'struct FunctionBody']:
        u.emit(C, it, derive_drop=['Clone'])
    u.emit(T, 'struct Typer', pub_fields=True)
    u.emit(T, 'struct Symbol', pub_fields=True)
    u.emit(T, 'struct Function', pub_fields=True)
    u.emit(T, 'struct Structure', pub_fields=True)
    u.include('spec/u_sym_spec.rs', kind='spec')
    u.include('spec/u_typst_spec.rs', kind='spec')
    u.include('spec/u_typas_spec.rs', kind='spec')
    u.include('spec/u_typref_spec.rs', kind='spec')
    u.emit(E, 'impl From<Error> for Poison')
    u.emit(C, 'impl Identifier', only=['inferred'])
    u.emit(C, 'impl Expression', only=['location'])
    u.emit(T, 'fn do_update_symbol', rules=[r_assert_message])
    u.emit(T, 'impl Typer', only=SYM_FNS)
    u.emit(T, 'trait Typed')
    u.emit(T, 'impl Typed for Expression')
    u.emit(T, 'impl Typed for FunctionBody')
    u.emit(T, 'fn infer_for_declaration', rules=[r_assert_message])
    u.emit(T, 'fn filter_for_naked_integer')
    u.emit(T, 'fn filter_for_bit_integer')
    u.emit(T, 'trait Analyzable', pre=inject('\tspec fn pre(self, t: Typer) -> bool;\n\tspec fn post(self, r: Self, t0: Typer, t1: Typer) -> bool;'))
    u.include('prelude/typst_callees.rs')
    u.include('prelude/typst_assign_stub.rs')
    u.include('prelude/typst_helpers.rs')
    u.include('prelude/slice_position.rs')
    u.emit(C, 'impl ReferenceStep', only=['get_member'])
    u.emit(T, 'fn build_type_of_ref1', rules=[tyr.ty2_rev_loop])
    u.emit(T, 'fn build_type_of_reference')
    u.emit(T, 'impl Reference', only=['analyze_assignment'],
           rules=[rules.r1_r2_map_collect(min_count=0), tyr.ty1_last_member, tyr.ty3_rposition, rules.r3_option_map(['member']), r_assert_message])
    u.emit(T, 'impl Analyzable for Statement', pre=specs('stmt_pre(self, t)', 'stmt_post(self, r, t0, t1)'))
