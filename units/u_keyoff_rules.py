"""Rewrite rules used only by unit U-KEYOFF (DESIGN.md 2.3; numbered locally).  Same conventions as vlib/rules.py: every
rule is local and syntactic, counts itself in `unit.rules`, and raises LostAnchor when a requested pattern is not there
(exit 2, never an alarm).

KO1  S.iter().position(|x| P) / S.iter().rposition(|x| P)  ->  slice_position(S, typed closure) / slice_rposition(..)
KO2  RECV.or_else(|| E)      ->  match (RECV) { Some(v) => Some(v), None => E }          (definition of Option::or_else)
     RECV.map(|p| E)         ->  match (RECV) { Some(p) => Some(E), None => None }       (definition of Option::map, = R3)
     RECV.and_then(|p| E)    ->  match (RECV) { Some(p) => E, None => None }             (definition of Option::and_then)
KO3  `std::path::Path` / `std::path::PathBuf`  ->  `Path` / `PathBuf` (the abstract model of prelude/keyoff_path.rs)
"""
import re
from vlib.rsparse import LostAnchor, tokenize, match_brackets
from vlib.rules import _seq, _closure, _as_block

KEYWORDS = ('match', 'if', 'while', 'for', 'return', 'in', 'let', 'else', 'loop', 'break', 'mut', 'ref', 'move')


def _postfix_start(toks, match, dot):
    """index of the first token of the postfix expression that ends right before the '.' at index `dot`:
    a chain of identifiers / paths / calls / method calls / index expressions / one parenthesised expression."""
    j = dot - 1
    while True:
        if j < 0:
            raise LostAnchor('receiver of Option adapter chain not found')
        t = toks[j]
        if t.kind == 'p' and t.text in (')', ']'):
            j = match[j]
            if j - 1 >= 0 and toks[j - 1].kind == 'id' and toks[j - 1].text not in KEYWORDS:
                j -= 1              # call / method call / index of a named thing
            elif j - 1 >= 0 and toks[j - 1].kind == 'p' and toks[j - 1].text in (')', ']'):
                j -= 1              # call on a call result: keep walking
                continue
            else:
                return j            # parenthesised expression
        elif t.kind in ('id', 'num', 'str'):
            if t.text in KEYWORDS:
                raise LostAnchor('receiver of Option adapter chain is not a postfix expression')
        else:
            raise LostAnchor('receiver of Option adapter chain is not a postfix expression (token %r)' % t.text)
        # now at an identifier (or literal): is it a path segment / field / method of something in front?
        if j - 1 >= 0 and toks[j - 1].kind == 'p' and toks[j - 1].text == '.':
            j -= 2
            continue
        if j - 2 >= 0 and toks[j - 1].text == ':' and toks[j - 2].text == ':':
            j -= 3
            continue
        return j


def r_iter_position(elem_type, contracts):
    """KO1: every `S.iter().position(|x| P)` becomes
         slice_position(S, |x: &T| -> (b: bool) ensures ENS { let b = { P }; proof { assert(ENS); /*label*/ } b })
    and `.rposition` likewise with slice_rposition.  slice_position / slice_rposition are verified helpers
    (prelude/slice_position.rs) whose postcondition is "index of the first / last element on which the closure returns
    true".  ENS (`b == ...`) is the closure's ghost contract, checked by Verus against the REAL closure body P; the
    ghost `assert(ENS)` in front of the result makes a body that no longer meets ENS fail as a NAMED assertion of
    the enclosing function.  S must be a slice.
    contracts: list of (IDENT, ENS, label); a closure gets the contract of the first entry whose IDENT occurs as an
    identifier token in its body, i.e. the contract is chosen by WHAT the closure compares with, not by its position -
    so reordering the lookups keeps every closure under the contract that speaks about the variable it uses, and the
    function's postcondition judges the order."""
    def rule(u, key, text):
        n = 0
        while True:
            toks = tokenize(text)
            match = match_brackets(toks)
            site = None
            for i, t in enumerate(toks):
                if t.text == '.' and _seq(toks, i, ['.', 'iter', '(', ')', '.']) and toks[i + 5].text in ('position', 'rposition') \
                        and toks[i + 6].text == '(' and toks[i + 7].text == '|':
                    site = i
                    break
            if site is None:
                break
            i = site
            rs = _postfix_start(toks, match, i)
            recv = text[toks[rs].start:toks[i].start].strip()
            helper = 'slice_' + toks[i + 5].text
            mopen = i + 6
            mclose = match[mopen]
            param, body = _closure(text, toks, match, mopen)
            idents = set(t.text for t in tokenize(body) if t.kind == 'id')
            ren = getattr(u, 'current_renames', {}) or {}
            rn = lambda s: re.sub(r'(?<![\w.])(%s)\b' % '|'.join(re.escape(k) for k in ren), lambda m: ren[m.group(1)], s) if ren else s
            chosen = [(ren.get(c[0], c[0]), rn(c[1]), c[2]) for c in contracts if ren.get(c[0], c[0]) in idents]
            if not chosen:
                raise LostAnchor('%s: KO1 no closure contract for a lookup closure mentioning none of %s' % (key, [c[0] for c in contracts]))
            _, ens, label = chosen[0]
            new = ('%s(%s, |%s: &%s| -> (b: bool)\n\t\t\tensures %s\n\t\t{\n\t\t\tlet b = %s;\n\t\t\tproof { assert(%s); /*@L:%s*/ }\n\t\t\tb\n\t\t})'
                   % (helper, recv, param, elem_type, ens, _as_block(body), ens, label))
            text = text[:toks[rs].start] + new + text[toks[mclose].end:]
            u.rules['KO1-iter-position'] += 1
            n += 1
        if n == 0:
            raise LostAnchor('%s: rule KO1 found no `.iter().position(|..| ..)`' % key)
        return text
    return rule


def r_option_adapters(u, key, text):
    """KO2: Option::{or_else, map, and_then} with a closure literal -> `match` (their std definitions).  The LAST site in
    textual order is rewritten first, so the receiver of an outer adapter is still a plain postfix chain when its turn comes
    and an inner adapter's receiver never contains an already rewritten `match`."""
    names = ('or_else', 'map', 'and_then')
    k = 0
    while True:
        toks = tokenize(text)
        match = match_brackets(toks)
        site = None
        for i, t in enumerate(toks):
            if t.text == '.' and i + 3 < len(toks) and toks[i + 1].kind == 'id' and toks[i + 1].text in names \
                    and toks[i + 2].text == '(' and toks[i + 3].text == '|':
                site = i
        if site is None:
            break
        i = site
        name = toks[i + 1].text
        mopen = i + 2
        mclose = match[mopen]
        rs = _postfix_start(toks, match, i)
        recv = text[toks[rs].start:toks[i].start].strip()
        # closure head: `||` (no parameter) or `|p|`
        if toks[mopen + 2].text == '|':
            param = ''
            body = text[toks[mopen + 2].end:toks[mclose].start].strip()
        else:
            param, body = _closure(text, toks, match, mopen)
        if name == 'or_else':
            if param:
                raise LostAnchor('%s: KO2 or_else closure takes a parameter' % key)
            v = 'ko2_v%d' % k
            new = 'match (%s) { Some(%s) => Some(%s), None => %s }' % (recv, v, v, _as_block(body))
        elif name == 'map':
            if not param:
                raise LostAnchor('%s: KO2 map closure without parameter' % key)
            new = 'match (%s) { Some(%s) => Some(%s), None => None }' % (recv, param, _as_block(body))
        else:
            if not param:
                raise LostAnchor('%s: KO2 and_then closure without parameter' % key)
            new = 'match (%s) { Some(%s) => %s, None => None }' % (recv, param, _as_block(body))
        text = text[:toks[rs].start] + new + text[toks[mclose].end:]
        u.rules['KO2-option-' + name] += 1
        k += 1
    return text


def r_std_path(u, key, text):
    """KO3: `std::path::Path` / `std::path::PathBuf` name the abstract model types of prelude/keyoff_path.rs"""
    n = len(re.findall(r'(?<![A-Za-z0-9_:])std::path::(?=Path\b|PathBuf\b)', text))
    if n:
        u.rules['KO3-std-path-model'] += n
        text = re.sub(r'(?<![A-Za-z0-9_:])std::path::(?=Path\b|PathBuf\b)', '', text)
    return text
