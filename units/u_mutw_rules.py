"""Rewrite rules local to U-MUTW (same style as vlib/rules.py: (unit, key, text) -> text, every application counted).

R3p: R3 (`OPT.map(|p| BODY)` -> `match OPT { Some(p) => Some(BODY), None => None }`) for a receiver that is a field path
`self.return_value` (vlib.rules.r3_option_map only takes a bare identifier).  Semantics: Option::map, by definition."""
import re
from vlib.rsparse import LostAnchor, tokenize, match_brackets
from vlib import rules


def r3_option_map_path(path):
    """path: e.g. 'self.return_value'; applied where it occurs (a function without the pattern is left alone and judged by its contract)"""
    parts = path.split('.')
    want = []
    for i, p in enumerate(parts):
        if i:
            want.append('.')
        want.append(p)

    def rule(u, key, text):
        toks = tokenize(text)
        match = match_brackets(toks)
        for i, t in enumerate(toks):
            if rules._seq(toks, i, want) and rules._seq(toks, i + len(want), ['.', 'map', '(']) \
                    and toks[i + len(want) + 3].text == '|' and (i == 0 or toks[i - 1].text != '.'):
                mopen = i + len(want) + 2
                mclose = match[mopen]
                param, body = rules._closure(text, toks, match, mopen)
                new = 'match %s { Some(%s) => Some(%s), None => None }' % (path, param, rules._as_block(body))
                u.rules['R3'] += 1
                return text[:t.start] + new + text[toks[mclose].end:]
        return text
    return rule
