"""Rewrite rules used only by unit U-TYPST.  Same conventions as vlib/rules.py: local, syntactic, counted in `unit.rules`,
LostAnchor when the pattern is not there where a contract relies on it (exit 2, never an alarm)."""
import re
from vlib.rsparse import LostAnchor


def ty1_last_member(u, key, text):
    """TY1: `steps.iter().rev().find_map(|step| step.get_member())` -> `steps_last_member(&steps)`
    (verified helper of prelude/typst_helpers.rs: the first Some of get_member() scanning from the last step; Verus has no
    spec for the iterator adapters rev / find_map)."""
    pat = re.compile(r'steps\s*\.iter\(\)\s*\.rev\(\)\s*\.find_map\(\|step\|\s*step\.get_member\(\)\)')
    text, n = pat.subn('steps_last_member(&steps)', text)
    if n:
        u.rules['TY1-rev-find_map'] += n
    return text


def ty2_rev_loop(u, key, text):
    """TY2: `for step in steps.iter().rev() {` -> index loop from the last element down
         let mut ty2_i: usize = steps.len(); while ty2_i > 0 { ty2_i = ty2_i - 1; let step = &steps[ty2_i]; ..."""
    pat = re.compile(r'for step in steps\.iter\(\)\.rev\(\)\s*\{')
    text, n = pat.subn('let mut ty2_i: usize = steps.len();\n\twhile ty2_i > 0\n\t{\n\t\tty2_i = ty2_i - 1;\n\t\tlet step = &steps[ty2_i];', text)
    if n:
        u.rules['TY2-rev-loop'] += n
    return text


def ty3_rposition(u, key, text):
    """TY3: `steps.iter().rposition(|step| BODY)` (or .position) -> `slice_rposition(steps.as_slice(), |step: &ReferenceStep| -> (b: bool) ensures .. { BODY })`
    slice_rposition is the VERIFIED helper of prelude/slice_position.rs (greatest index on which the closure returns true; as rule
    KO1 of units/u_keyoff_rules.py).  BODY is kept verbatim and checked by Verus against the closure's ghost contract
    `b == (member_of(*step) is Some)`."""
    pat = re.compile(r'steps\s*\.iter\(\)\s*\.(r?position)\(\|step\|\s*([^|{};]*?)\)(?=\s*\{)')
    def f(m):
        u.rules['TY3-' + m.group(1)] += 1
        return ('slice_%s(steps.as_slice(), |step: &ReferenceStep| -> (b: bool)\n\t\t\t\tensures b == (member_of(*step) is Some) /*@L:C07.typst.member_step_test*/\n'
                '\t\t\t\t{ %s })' % (m.group(1), m.group(2).strip()))
    return pat.sub(f, text)
