"""U-DEPTH (C11): src/alpha/scoper.rs get_container_depth / is_container - the sort key and the partition predicate with which
the compiler splits the declarations of a module into containers (constants, structures: analysed first, in order of depth)
and functions.  `partition_point` needs the slice to be partitioned by its predicate: is_container must be MONOTONE along the
sort key, i.e. exactly `depth < u32::MAX` (theorem_partition_is_well_defined)."""
from units.ast_common import emit_ast
S = 'src/alpha/scoper.rs'


def build(u):
    u.load_contracts('contracts/u_depth.vc')
    u.notes += ['the callers (Compiler::analyze_and_resolve: sort_by_key(get_container_depth), partition_point(is_container)) are compiled only with the alpha feature and are not under contract; '
                'the replay runner mirrors them',
                'opaque AST field types as in the statement-tree units (units/ast_common.py)']
    emit_ast(u)
    u.include('spec/u_depth_spec.rs', kind='spec')
    u.emit(S, 'fn get_container_depth')
    u.emit(S, 'fn is_container')
