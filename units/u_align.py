"""U-ALIGN: src/alpha/typer.rs `align` + `Typer::align_struct` (C11: words larger than declared are rejected, E380;
structure size = sum of aligned member sizes, structure alignment = max member alignment).

The real types are sliced, not modelled: value_type.rs goes into `mod value_type` (as in the crate) so that the
alias `type ValueType = value_type::ValueType<Identifier>` of common.rs can be sliced verbatim next to it.
`emit_types` is shared with U-MUT."""
import os
from vlib import vc

VT = 'src/alpha/value_type.rs'
C = 'src/alpha/common.rs'
E = 'src/alpha/error.rs'
T = 'src/alpha/typer.rs'
VT_IMPL = 'impl<I> ValueType<I> where I: Identifier'


def import_contracts(u, rel, keys):
    """contracts of callees verified in another unit are imported verbatim from that unit's .vc file (DESIGN 2.2 item 5)"""
    c = vc.parse(os.path.join(u.verif, rel))
    for k in keys:
        if k in u.contracts:
            raise ValueError('duplicate contract key ' + k)
        u.contracts[k] = c[k]


def emit_types(u, vt_fns):
    """mod value_type (real enum + the listed methods under their U-VT contracts + the U-VT spec file),
    then the real alpha::common / alpha::error types that do not involve expressions."""
    u.features.append('allocator_api')
    import_contracts(u, 'contracts/u_vt.vc', ['%s :: fn %s' % (VT_IMPL, f) for f in vt_fns])
    u.raw('pub mod value_type {\nuse vstd::prelude::*;\nuse vstd::std_specs::cmp::{PartialEqSpec, PartialEqSpecImpl};')
    u.include('prelude/std_box_option.rs')
    u.emit(VT, 'trait Identifier')
    u.emit(VT, 'const MAXIMUM_ALIGNMENT')
    u.emit(VT, 'enum ValueType', derive_drop=['Clone'])
    u.emit(VT, 'enum OperandValueType', derive_drop=['Clone'])
    u.emit(VT, VT_IMPL, only=list(vt_fns))
    u.include('spec/u_vt_spec.rs', kind='spec')
    u.raw('} // mod value_type')
    u.opaque += ['Location', 'lexer::Error']
    u.include('prelude/align_types.rs')
    u.emit(C, 'type ValueType')
    u.emit(E, 'type OperandValueType')
    u.emit(E, 'type Poisonable')
    u.emit(C, 'struct Identifier', derive_drop=['Clone'])
    u.emit(C, 'impl value_type::Identifier for Identifier')
    u.emit(C, 'impl PartialEq for Identifier')
    u.emit(E, 'enum Poison', derive_drop=['Clone'])
    u.emit(E, 'enum Error', derive_drop=['Clone'])
    u.emit(C, 'struct Member', derive_drop=['Clone'])


def build(u):
    u.load_contracts('contracts/u_align.vc')
    if u.sentinel:
        # The vacuity variant puts `assert(false)` after the fn's `requires` AND at the head of each loop body.  With
        # loop_isolation(false) the first one would be assumed inside the loop and mask the second, so the vacuity
        # variant keeps loop isolation on (its loop sentinel then tests exactly the invariants, as for every other unit).
        for c in u.contracts.values():
            c.attrs = [a for a in c.attrs if 'loop_isolation' not in a]
    emit_types(u, ['known_size_in_bytes_as_word_member'])
    u.include('prelude/align_std.rs')
    u.raw('use value_type::MAXIMUM_ALIGNMENT;')
    u.emit(T, 'struct Typer', pub_fields=True)
    u.emit(T, 'struct Symbol', pub_fields=True)
    u.emit(T, 'struct Function', pub_fields=True)
    u.emit(T, 'struct Structure', pub_fields=True)
    u.include('spec/u_align_spec.rs', kind='spec')
    u.emit(T, 'impl Typer', only=['align_struct'])
    u.emit(T, 'fn align')
