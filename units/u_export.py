"""U-EXPORT: src/alpha/expander.rs `export` + `extract_public` (C12: an import sees exactly the public interface)."""
from vlib import rules
from vlib.rsparse import tokenize, match_brackets

C = 'src/alpha/common.rs'
E = 'src/alpha/error.rs'
X = 'src/alpha/expander.rs'


def r3_call_map(fn_name):
    """R3 (DESIGN.md 2.3) for a receiver that is a call:  F(ARGS).map(|p| BODY)  ->
    match F(ARGS) { Some(p) => Some({ BODY }), None => None }     (the definition of Option::map).
    vlib.rules.r3_option_map only knows identifier receivers.  Why not a closure contract: Verus reports a wrong closure
    body as "unable to prove post-condition of closure", which the runner does not count as a verification failure
    (-> undecided instead of a named obligation); after R3 the constructed value is checked by the named postconditions
    of `export` itself.  Applied wherever the pattern occurs (0 sites is fine: nothing to rewrite)."""
    def rule(u, key, text):
        while True:
            toks = tokenize(text)
            match = match_brackets(toks)
            site = None
            for i, t in enumerate(toks):
                if t.kind == 'id' and t.text == fn_name and i + 1 < len(toks) and toks[i + 1].text == '(' \
                        and (i == 0 or toks[i - 1].text not in ('.', 'fn', '::')):
                    close = match[i + 1]
                    if rules._seq(toks, close + 1, ['.', 'map', '(']) and toks[close + 4].text == '|':
                        site = (i, close, close + 3)
                        break
            if site is None:
                return text
            i, close, mopen = site
            mclose = match[mopen]
            param, body = rules._closure(text, toks, match, mopen)
            recv = text[toks[i].start:toks[close].end]
            new = 'match %s { Some(%s) => Some(%s), None => None }' % (recv, param, rules._as_block(body))
            text = text[:toks[i].start] + new + text[toks[mclose].end:]
            u.rules['R3'] += 1
    return rule


def build(u):
    u.load_contracts('contracts/u_export.vc')
    u.include('prelude/export_enumset.rs')
    u.include('prelude/export_std.rs')
    u.opaque += ['EnumSet<T> (trusted set model)', 'Location', 'Identifier', 'Expression', 'ValueType', 'Parameter', 'Member',
                 'FunctionBody', 'Poison']
    u.emit(E, 'type Poisonable')
    u.emit(C, 'enum DeclarationFlag')       # real 5-flag enum; its `EnumSetType` derive is dropped by extraction
    # the derived Clone of Declaration is not called by the unit
    u.emit(C, 'enum Declaration', derive_drop=['Clone'])
    u.include('spec/u_export_spec.rs', kind='spec')
    u.emit(X, 'fn extract_public')
    u.emit(X, 'fn export', rules=[r3_call_map('extract_public')])
