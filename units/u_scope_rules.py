"""Rewrite rules used only by unit U-SCOPE (DESIGN.md 2.3 conventions; numbered locally).  Every rule is local and syntactic,
counts itself in `unit.rules`, and raises LostAnchor when a pattern it is asked for is not there (exit 2, never an alarm).
What a rule leaves in the text is a call of a VERIFIED helper of prelude/scope_find.rs / slice_find.rs / slice_position.rs (the
iterator chain re-stated as a loop) that receives every closure of the chain with its body verbatim, an index loop, or a call
of a TRUSTED wrapper of prelude/scope_hashset.rs whose body is the operator application it replaces.

SC1  lazy chains over a slice that end in `find`:
       S.iter().filter(|a| F).map(|b| M).find(|c| P)   ->  scope_find_fm(S.as_slice(), CL(a, F), CL(b, M), CL(c, P))
       S.iter().map(|b| M).find(|c| P)                 ->  scope_find_m(S.as_slice(), CL(b, M), CL(c, P))
       S.iter().filter(|a| F).find(|c| P)              ->  scope_find_f(S.as_slice(), CL(a, F), CL(c, P))
     (`S.iter().find(..)` without a stage is rule R14 of vlib/rules.py.)  Only the first form occurs in the pinned code; the
     other two exist so that a change which drops a stage is JUDGED by the contracts instead of being rejected as outside the
     dialect.  Any other order or number of stages: LostAnchor.
     CL gives the closure a typed head and a ghost contract and keeps its body:
       |x| BODY   ->   |x: TYPE| -> (b: RET) ensures ENS { let b = { BODY }; proof { assert(ENS); /*label*/ } b }
     ENS is the ghost contract of that stage (given by the unit description: what the stage is supposed to compute); Verus
     checks it against the REAL body, and the ghost assert makes a body that no longer meets it fail as a NAMED assertion.
     std semantics relied upon: see the head of prelude/scope_find.rs.
SC3  S.iter().skip(N).flat_map(|l| l.iter()).find(|c| P)   ->  scope_nested_find(S.as_slice(), N, CL(c, P))
     S.iter().flat_map(|l| l.iter()).find(|c| P)           ->  scope_nested_find(S.as_slice(), 0, CL(c, P))
     only when the flat_map closure is literally `|l| l.iter()` (else LostAnchor).
R14  (vlib/rules.py) S.iter().find(|c| P) -> slice_find(S.as_slice(), CL(c, P)): re-implemented here as r14_named so that the
     closure is written like the closures of SC1 (ghost assert with a label: a changed body fails a NAMED assertion).
SC4  let V = S.iter_mut().find(|x| P).expect(M);   ->   let sc_iN = slice_position(S.as_slice(), CL(x, P)).expect(M); let V = &mut S[sc_iN];
SC5  for X in &mut V { B }   ->   let mut sc_jN: usize = 0; while sc_jN < V.len() { let X = &mut V[sc_jN]; B sc_jN += 1; }
SC6  &A | &B   ->   scope_union(&A, &B)          TRUSTED wrappers of prelude/scope_hashset.rs whose body is the very operator
SC7  &A - &B   ->   scope_difference(&A, &B)     application (std::collections::HashSet union / difference)
(details and the std semantics relied upon: docstring of each rule)
"""
import re
from vlib.rsparse import LostAnchor, tokenize, match_brackets
from vlib.rules import _seq, _receiver_start, _closure, _as_block


def _subst(ens, written_for, param):
    from vlib.rules import follow_renames
    ens = follow_renames(ens, but_not=(written_for, param))      # locals of the function named in the ghost contract
    if not written_for or written_for == param:
        return ens
    return re.sub(r'(?<![\w.])%s\b' % re.escape(written_for), param, ens)


def _typed(param, body, ptype, res, rtype, ens, label, written_for):
    if not re.match(r'^[A-Za-z_][A-Za-z0-9_]*$', param) or param == res:
        raise LostAnchor('SC1: closure parameter %r is not a plain identifier' % param)
    ens = _subst(ens, written_for, param)
    mark = ' /*@L:%s*/' % label if label else ''
    return ('|%s: %s| -> (%s: %s)\n\t\t\t\tensures %s\n\t\t\t{\n\t\t\t\tlet %s = %s;\n\t\t\t\tproof { assert(%s);%s }\n\t\t\t\t%s\n\t\t\t}'
            % (param, ptype, res, rtype, ens, res, _as_block(body), ens, mark, res))


def sc1_chain_find(elem, mapped, filter_ens, map_ens, find_ens, filter_label=None, map_label=None, find_label=None, written_for='x', min_count=1):
    """SC1 (see module docstring).  elem: element type of the slice; mapped: the type the map stage projects to;
    *_ens: ghost contract of each stage, written for a closure parameter named `written_for`, result `b` (bool) or `r` (&mapped)."""
    def rule(u, key, text):
        n = 0
        while True:
            toks = tokenize(text)
            match = match_brackets(toks)
            site = None
            for i, t in enumerate(toks):
                if not (t.text == '.' and _seq(toks, i, ['.', 'iter', '(', ')'])):
                    continue
                j = i + 4
                stages = []
                while j + 3 < len(toks) and toks[j].text == '.' and toks[j + 1].text in ('filter', 'map') and toks[j + 2].text == '(' and toks[j + 3].text == '|':
                    stages.append((toks[j + 1].text, j + 2))
                    j = match[j + 2] + 1
                if stages and j + 3 < len(toks) and toks[j].text == '.' and toks[j + 1].text == 'find' and toks[j + 2].text == '(' and toks[j + 3].text == '|':
                    site = (i, stages, j + 2)
                    break
            if site is None:
                break
            i, stages, fopen = site
            kinds = ''.join(k[0] for k, _ in stages)
            if kinds not in ('fm', 'm', 'f'):
                raise LostAnchor('%s: SC1 cannot restate the chain .iter().%s.find(..)' % (key, '.'.join(k for k, _ in stages)))
            rs = _receiver_start(toks, i)
            recv = re.sub(r'\s+', '', text[toks[rs].start:toks[i].start])
            args = []
            cur = elem
            for kind, op in stages:
                param, body = _closure(text, toks, match, op)
                if kind == 'filter':
                    args.append(_typed(param, body, '&&' + cur, 'b', 'bool', filter_ens, filter_label, written_for))
                else:
                    args.append(_typed(param, body, '&' + cur, 'r', '&' + mapped, map_ens, map_label, written_for))
                    cur = mapped
            param, body = _closure(text, toks, match, fopen)
            args.append(_typed(param, body, '&&' + cur, 'b', 'bool', find_ens, find_label, written_for))
            new = 'scope_find_%s(%s.as_slice(),\n\t\t\t%s)' % (kinds, recv, ',\n\t\t\t'.join(args))
            text = text[:toks[rs].start] + new + text[toks[match[fopen]].end:]
            u.rules['SC1-chain-find-' + kinds] += 1
            n += 1
        if n < min_count:
            raise LostAnchor('%s: rule SC1 found no `.iter().filter(..).map(..).find(..)` chain' % key)
        return text
    return rule


def sc3_nested_find(elem, find_ens, find_label=None, written_for='x', min_count=1):
    """SC3 (see module docstring)"""
    def rule(u, key, text):
        n = 0
        while True:
            toks = tokenize(text)
            match = match_brackets(toks)
            site = None
            for i, t in enumerate(toks):
                if not (t.text == '.' and _seq(toks, i, ['.', 'iter', '(', ')', '.'])):
                    continue
                j = i + 4
                skip = '0'
                if _seq(toks, j, ['.', 'skip', '(']):
                    close = match[j + 2]
                    skip = text[toks[j + 2].end:toks[close].start].strip()
                    j = close + 1
                if not (_seq(toks, j, ['.', 'flat_map', '(']) and toks[j + 3].text == '|'):
                    continue
                fm_open = j + 2
                k = match[fm_open] + 1
                if not (_seq(toks, k, ['.', 'find', '(']) and toks[k + 3].text == '|'):
                    continue
                site = (i, skip, fm_open, k + 2)
                break
            if site is None:
                break
            i, skip, fm_open, fopen = site
            lp, lb = _closure(text, toks, match, fm_open)
            if re.sub(r'\s+', '', lb) != lp.strip() + '.iter()':
                raise LostAnchor('%s: SC3 flat_map closure is not `|l| l.iter()`: %r' % (key, lb[:60]))
            if not re.match(r'^[A-Za-z0-9_]+(\s*\+\s*[A-Za-z0-9_]+)*$', skip):
                raise LostAnchor('%s: SC3 skip count is not a literal, a named constant or a sum of those: %r' % (key, skip))
            rs = _receiver_start(toks, i)
            recv = re.sub(r'\s+', '', text[toks[rs].start:toks[i].start])
            param, body = _closure(text, toks, match, fopen)
            cl = _typed(param, body, '&&' + elem, 'b', 'bool', find_ens, find_label, written_for)
            new = 'scope_nested_find(%s.as_slice(), %s,\n\t\t\t%s)' % (recv, skip, cl)
            text = text[:toks[rs].start] + new + text[toks[match[fopen]].end:]
            u.rules['SC3-nested-find'] += 1
            n += 1
        if n < min_count:
            raise LostAnchor('%s: rule SC3 found no `.iter()[.skip(N)].flat_map(|l| l.iter()).find(..)` chain' % key)
        return text
    return rule


def r14_named(elem, find_ens, find_label=None, written_for='x'):
    """R14 of vlib/rules.py (S.iter().find(|x| P) -> slice_find(S.as_slice(), closure)) with the closure written like the
    closures of SC1: typed head, ghost contract, body verbatim, ghost assert so that a changed body fails a NAMED assertion."""
    def rule(u, key, text):
        while True:
            toks = tokenize(text)
            match = match_brackets(toks)
            site = None
            for i, t in enumerate(toks):
                if t.text == '.' and _seq(toks, i, ['.', 'iter', '(', ')', '.', 'find', '(']) and toks[i + 7].text == '|':
                    site = i
                    break
            if site is None:
                break
            i = site
            rs = _receiver_start(toks, i)
            recv = re.sub(r'\s+', '', text[toks[rs].start:toks[i].start])
            fopen = i + 6
            param, body = _closure(text, toks, match, fopen)
            cl = _typed(param, body, '&&' + elem, 'b', 'bool', find_ens, find_label, written_for)
            new = 'slice_find(%s.as_slice(),\n\t\t\t%s)' % (recv, cl)
            text = text[:toks[rs].start] + new + text[toks[match[fopen]].end:]
            u.rules['R14'] += 1
        return text
    return rule


def sc4_iter_mut_find_expect(elem, find_ens, find_label=None, written_for='x', min_count=1):
    """SC4  let V = S.iter_mut().find(|x| P).expect(M);   ->   let sc_iN = slice_position(S.as_slice(), CL(x, P)).expect(M);
                                                                let V = &mut S[sc_iN];
    `find` on the mutable iterator yields the FIRST element on which P holds, i.e. the element at `position(P)`; P only reads
    (it receives `&&mut T`, the helper gives it `&T`: same field reads through auto-deref).  The same panic (M) when there is
    none.  slice_position is the verified helper of prelude/slice_position.rs; `&mut S[i]` borrows one element instead of
    letting the iterator borrow the whole vector for as long as V lives - V cannot tell."""
    def rule(u, key, text):
        n = 0
        while True:
            toks = tokenize(text)
            match = match_brackets(toks)
            site = None
            for i, t in enumerate(toks):
                if t.text == '.' and _seq(toks, i, ['.', 'iter_mut', '(', ')', '.', 'find', '(']) and toks[i + 7].text == '|':
                    fopen = i + 6
                    k = match[fopen] + 1
                    if _seq(toks, k, ['.', 'expect', '(']) and toks[match[k + 2] + 1].text == ';':
                        site = (i, fopen, k + 2)
                        break
            if site is None:
                break
            i, fopen, eopen = site
            rs = _receiver_start(toks, i)
            if not (rs >= 3 and toks[rs - 1].text == '=' and toks[rs - 2].kind == 'id' and toks[rs - 3].text == 'let'):
                raise LostAnchor('%s: SC4 `.iter_mut().find(..).expect(..)` is not the whole initialiser of a `let`' % key)
            var = toks[rs - 2].text
            recv = re.sub(r'\s+', '', text[toks[rs].start:toks[i].start])
            param, body = _closure(text, toks, match, fopen)
            cl = _typed(param, body, '&' + elem, 'b', 'bool', find_ens, find_label, written_for)
            msg = text[toks[eopen].end:toks[match[eopen]].start]
            idx = 'sc_i%d' % n
            new = ('let %s = slice_position(%s.as_slice(),\n\t\t\t%s)\n\t\t\t.expect(%s);\n\t\tlet %s = &mut %s[%s];'
                   % (idx, recv, cl, msg, var, recv, idx))
            text = text[:toks[rs - 3].start] + new + text[toks[match[eopen] + 1].end:]
            u.rules['SC4-iter-mut-find-expect'] += 1
            n += 1
        if n < min_count:
            raise LostAnchor('%s: rule SC4 found no `let V = S.iter_mut().find(..).expect(..);`' % key)
        return text
    return rule


def sc5_for_mut(u, key, text):
    """SC5  for X in &mut V { B }   ->   let mut sc_jN: usize = 0; while sc_jN < V.len() { let X = &mut V[sc_jN]; B sc_jN += 1; }
    (rule EX1 of units/u_expand_rules.py for the spelling `&mut V`): same elements, same order, one element borrowed at a
    time; only for bodies without `continue` / `break` / `return` (else LostAnchor)."""
    n = 0
    while True:
        toks = tokenize(text)
        match = match_brackets(toks)
        site = None
        for i, t in enumerate(toks):
            if t.kind == 'id' and t.text == 'for' and toks[i + 1].kind == 'id' and _seq(toks, i + 2, ['in', '&', 'mut']):
                j = i + 5
                while j < len(toks) and toks[j].text != '{':
                    if not (toks[j].kind == 'id' or toks[j].text == '.'):
                        raise LostAnchor('%s: SC5 loops over something else than a place `&mut a.b`' % key)
                    j += 1
                site = (i, j)
                break
        if site is None:
            break
        i, bopen = site
        var = toks[i + 1].text
        vec = re.sub(r'\s+', '', text[toks[i + 5].start:toks[bopen].start])
        body = text[toks[bopen].end:toks[match[bopen]].start].rstrip()
        if re.search(r'\b(continue|break|return)\b', body):
            raise LostAnchor('%s: SC5 loop body leaves the loop early' % key)
        j = 'sc_j%d' % n
        new = ('let mut %s: usize = 0;\n\t\twhile %s < %s.len()\n\t\t{\n\t\t\tlet %s = &mut %s[%s];%s\n\t\t\t%s += 1;\n\t\t}'
               % (j, j, vec, var, vec, j, body, j))
        text = text[:toks[i].start] + new + text[toks[match[bopen]].end:]
        u.rules['SC5-for-mut'] += 1
        n += 1
    if n == 0:
        raise LostAnchor('%s: rule SC5 found no `for X in &mut V`' % key)
    return text


def sc6_hashset_union(u, key, text):
    """SC6  &A | &B   ->   scope_union(&A, &B)     for places A, B (HashSet<u32>): the trusted wrapper of prelude/scope_hashset.rs
    whose body is `a | b` (std: `impl BitOr<&HashSet<T, S>> for &HashSet<T, S>`, "Returns the union of self and rhs as a new
    HashSet<T, S>"); Verus has no vocabulary for overloaded operators on std types."""
    pat = re.compile(r'&\s*([A-Za-z_][\w.]*)\s*\|\s*&\s*([A-Za-z_][\w.]*)')
    text, n = pat.subn(lambda m: 'scope_union(&%s, &%s)' % (m.group(1), m.group(2)), text)
    if n == 0:
        raise LostAnchor('%s: rule SC6 found no `&A | &B`' % key)
    u.rules['SC6-hashset-union'] += n
    return text


def sc7_hashset_difference(u, key, text):
    """SC7  &A - &B   ->   scope_difference(&A, &B)     like SC6, for `impl Sub<&HashSet<T, S>> for &HashSet<T, S>`
    ("Returns the difference of self and rhs as a new HashSet<T, S>")."""
    pat = re.compile(r'&\s*([A-Za-z_][\w.]*)\s*-\s*&\s*([A-Za-z_][\w.]*)')
    text, n = pat.subn(lambda m: 'scope_difference(&%s, &%s)' % (m.group(1), m.group(2)), text)
    if n == 0:
        raise LostAnchor('%s: rule SC7 found no `&A - &B`' % key)
    u.rules['SC7-hashset-difference'] += n
    return text
