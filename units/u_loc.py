"""U-LOC: src/alpha/lexer.rs Location::combined_with and the span bookkeeping of the alpha parser's token cursor
(src/alpha/parser.rs: Tokens::{pop_front, start_location_span, location_of_span}) - C13: a diagnostic's span covers the
offending text, is well formed, and starts on the reported line (the line/column of a combined span are those of its FIRST token)."""
from vlib import rules
F = 'src/alpha/lexer.rs'
P = 'src/alpha/parser.rs'


def build(u):
    u.load_contracts('contracts/u_loc.vc')
    u.include('prelude/usize_minmax.rs')
    u.features.append('allocator_api')
    u.raw('use std::collections::VecDeque;')
    u.include('prelude/vecdeque_front.rs')
    u.raw('// opaque: the cursor only moves tokens around\n#[verifier::external_body] pub struct Token { _p: u8 }\n#[verifier::external_body] pub struct Error { _p: u8 }')
    u.emit(F, 'struct Location', derive_drop=['PartialEq', 'Clone'])
    u.raw('// trusted: the derived Clone of Location (String, Range<usize>, usize, usize) is the identity\n'
          'impl Clone for Location { #[verifier::external_body] fn clone(&self) -> (r: Self) ensures r == *self { Location { source_filename: self.source_filename.clone(), span: self.span.clone(), line_number: self.line_number, line_offset: self.line_offset } } }')
    u.notes.append('Location: derived PartialEq/Debug dropped (unused); the derived Clone is replaced by a trusted identity clone')
    u.emit(F, 'struct LexedToken')
    u.emit(F, 'impl Location', only=['combined_with'], rules=[rules.r21_cmp_minmax])
    u.emit(P, 'struct Tokens', pub_fields=True)
    u.emit(P, 'impl Tokens', only=['pop_front', 'start_location_span', 'location_of_span'])
