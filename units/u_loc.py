"""U-LOC: src/alpha/lexer.rs Location::combined_with (C13: a diagnostic's span covers the offending text and is well formed)."""
from vlib import rules
F = 'src/alpha/lexer.rs'


def build(u):
    u.load_contracts('contracts/u_loc.vc')
    u.include('prelude/usize_minmax.rs')
    u.emit(F, 'struct Location', derive_drop=['Clone', 'PartialEq'])
    u.notes.append('Location: derived Clone/PartialEq/Debug not needed by combined_with and dropped')
    u.emit(F, 'impl Location', only=['combined_with'], rules=[rules.r21_cmp_minmax])
