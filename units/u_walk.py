"""U-WALK (C05) - the SCOPE DISCIPLINE of the tree walk of src/alpha/scoper/variable_references.rs: every `impl Analyzable for ..`
(Declaration, Member, Parameter, FunctionBody, Block, Statement, Comparison, Array, Expression, Reference, ReferenceStep,
Poisonable<ValueType>), analyze_type, Member::analyze_wellfoundedness, Analyzer::create_anonymous_resolution_id.
Not an oracle of the walk: a frame / representation invariant on Analyzer::variable_stack carried through every analyze() by the
trait-level spec fns pre / post (spec/u_walk_spec.rs):
  expressions, references, types, comparisons, array literals   the stack is unchanged (an array literal closes the scope it opens)
  statements                                                    same number of layers, only the innermost grows, by exactly the names
                                                                the statement declares (a declaration; the naked branches of an `if`)
  blocks, function bodies, top-level declarations               stack after == stack before: every scope opened is closed on every
                                                                path; the statements run with exactly one more, initially empty, layer
  goto / label statements                                       have the effect of prepare_to_prune_at_goto / prune_at_label (U-VARS contracts)
                                                                for their own label
plus panic-freedom of the walk (no id overflow under the budget ids_X, no unreachable!() on scoper input, the expect() of found_container_1).
The Analyzer methods the walk calls are re-verified under their U-SCOPE / U-VARS contracts (imported verbatim).  Types: the real
alpha AST incl. value_type.rs (emit_types, as U-MUTW / U-CONST); Location, lexer::Error, DeclarationFlag, EnumSet opaque.
Also in the unit (C11): Analyzer::found_container, the walk over a member's / constant's TYPE that feeds found_container_1 - VERIFIED: a type
records a dependency on exactly what it holds by value (by_value: the structure / word itself, the element type of every array flavour INCLUDING
array views `[]T` and `&[]T`, the constant naming an array length; nothing behind `&T` or a structure view, nothing for primitives), one
found_container_1 after the other up to the first rejection (recorded_all); and the TOP LEVEL: analyze (predeclare pass, walk pass,
determine_container_depths, postanalyze pass), postanalyze, obtain_container_depth - so the trait-level pre of the walk is DISCHARGED there.
predeclare, declare_constant / declare_struct / declare_function and determine_container_depths are re-verified under their U-SCOPE contracts."""
from vlib import rules
from units.u_align import emit_types, import_contracts
from units.u_mutw_rules import r3_option_map_path
from units import u_scope_rules as SR
from units import u_vars_rules as VR
from units import u_walk_rules as WR
from units.u_scope import rules_found_container_1
C = 'src/alpha/common.rs'
E = 'src/alpha/error.rs'
F = 'src/alpha/scoper/variable_references.rs'
IMPL = 'impl Analyzer'
BY_NAME = 'b == (x.name@ == identifier.name@)'


def inject(after_brace_text):
    def f(text):
        i = text.index('{')
        return text[:i + 1] + '\n' + after_brace_text + text[i + 1:]
    return f


def specs(pre, post):
    return inject('\topen spec fn pre(self, a: Analyzer) -> bool { %s }\n\topen spec fn post(self, r: Self, a0: Analyzer, a1: Analyzer) -> bool { %s }' % (pre, post))


def build(u):
    u.load_contracts('contracts/u_walk.vc')
    u.notes += [
        'TRUSTED wrapper walk_clone_depth (rule WK4, body `d.clone()` on Option<Poisonable<u32>>: the copy equals the original)',
        'opaque stand-ins, result unconstrained (prelude/walk_std.rs): walk_with_main_flag for `flags | DeclarationFlag::Main` (rule WK2), '
        'walk_str_is for `match name.as_str() { "main" => .. }` (rule WK3): the scope discipline does not depend on either',
        'rules: R1 (into_iter().map().collect() -> loop), R3 (Option::map -> match), WK1 (Result::and_then with a closure capturing `&mut analyzer` -> match; '
        '`?` inside such a closure is the value of the and_then), plus the U-SCOPE / U-VARS rules on the Analyzer methods',
        'trusted as in U-SCOPE / U-VARS (Option::flatten, HashSet::clone, union / difference / retain wrappers, [T]::reverse, vstd specs, derived Clone identity)',
        'the trait-level pre of the walk (lookup invariant inv, id budget, no constant under analysis between declarations, only the constant layer open, '
        'every constant / structure predeclared with its own container, types resolved before the wellfoundedness check) is DISCHARGED by `analyze` from two '
        'preconditions on the parsed module: program_fits (1 + number of declarations + ids the walk consumes <= u32::MAX; BAD for typer-inserted nodes) and '
        'types_named (no `UnresolvedStructOrWord { identifier: None }` by value in a constant or member type: found_container has unreachable!() there)',
        'PROVED inside the unit: "an open scope when declaring" for every variable / parameter / member (Statement / Parameter / Member require two layers; Block, FunctionBody, '
        'Declaration::{Function, FunctionHead, Structure} establish them with push_scope before the first declaration)',
        'not caught by a frame contract: the ORDER of analysing a value and declaring its variable inside Statement::Declaration (both orders leave the same stack)',
    ]
    import_contracts(u, 'contracts/u_vars.vc', ['impl Analyzer :: fn %s' % f for f in (
        'push_scope', 'pop_scope', 'declare_variable', 'declare_parameter', 'use_variable', 'prepare_to_prune_at_goto', 'prune_at_label')])
    import_contracts(u, 'contracts/u_scope.vc', ['impl From<Error> for Poison :: fn from'] + ['impl Analyzer :: fn %s' % f for f in (
        'found_container_1', 'use_containee', 'declare_member', 'use_struct', 'use_constant', 'use_function',
        'declare_constant', 'declare_struct', 'declare_function', 'determine_container_depths')] + ['fn predeclare'])
    emit_types(u, [])
    u.opaque += ['DeclarationFlag', 'EnumSet<T>']
    u.include('prelude/mutw_std.rs')
    u.include('prelude/walk_std.rs')
    for p in ('scope_std', 'slice_find', 'scope_find', 'slice_position', 'scope_hashset', 'vars_collect', 'vars_std'):
        u.include('prelude/%s.rs' % p)
    for it in ('enum BinaryOp', 'enum UnaryOp', 'enum ComparisonOp', 'enum Builtin'):
        u.emit(C, it)
    for it in ('struct Array', 'struct MemberExpression', 'enum Expression', 'enum DesliceOffset', 'enum ReferenceStep', 'struct Reference', 'struct Comparison',
               'struct Else', 'enum Statement', 'struct Block', 'struct FunctionBody', 'struct Parameter', 'enum Declaration'):
        u.emit(C, it, derive_drop=['Clone'])
    u.emit(E, 'impl From<Error> for Poison')
    for it in ('struct Analyzer', 'struct Container', 'struct UnresolvedPruning', 'struct Pruning'):
        u.emit(F, it, pub_fields=True)
    u.include('spec/u_scope_spec.rs', kind='spec')
    u.include('spec/u_vars_spec.rs', kind='spec')
    u.include('spec/u_walk_spec.rs', kind='spec')
    # ---- the Analyzer methods the walk calls, re-verified under their U-SCOPE / U-VARS contracts
    u.emit(F, IMPL, only=['found_container_1'], rules=rules_found_container_1())
    structs = SR.sc1_chain_find('Container', 'Identifier', 'b == x.is_structure', '*r == x.identifier', BY_NAME,
                                filter_label='C11.scope.structure_lookup_skips_constants', map_label='C11.scope.lookup_projects_the_declared_identifier',
                                find_label='C11.scope.lookup_is_by_name')
    R = [rules.only_for([':: fn use_struct'], structs),
         rules.only_for([':: fn use_constant', ':: fn use_variable'], SR.sc3_nested_find('Identifier', BY_NAME, find_label='C05.vars.lookup_is_by_name', min_count=0)),
         SR.r14_named('Identifier', BY_NAME, find_label='C05.vars.lookup_is_by_name')]
    u.emit(F, IMPL, only=['use_containee', 'found_container', 'create_anonymous_resolution_id', 'push_scope', 'pop_scope', 'declare_variable', 'declare_parameter',
                          'declare_member', 'use_variable', 'use_constant', 'use_function', 'use_struct'], rules=R)
    RG = [VR.vr1_from_iter('Identifier', 'r == identifier.resolution_id', '|x: Identifier| x.resolution_id', label='C05.vars.scope_is_recorded_by_resolution_id', written_for='identifier'),
          VR.optional(VR.vr3_retain('b == variables_in_scope@.contains(*x)', '|x: u32| variables_in_scope@.contains(x)', label='C05.vars.later_gotos_narrow_the_intersection')),
          VR.optional(SR.sc6_hashset_union), VR.vr2_entry_and_modify_or_insert]
    u.emit(F, IMPL, only=['prepare_to_prune_at_goto'], rules=RG)
    RL = [VR.optional(VR.vr5_entry_or_insert_with),
          VR.vr4_filter_for('b == !intersection_of_variables@.contains(x.resolution_id)', label='C05.vars.pruned_are_the_variables_outside_the_intersection')]
    u.emit(F, IMPL, only=['prune_at_label'], rules=RL)
    # ---- the walk
    R1 = rules.r1_r2_map_collect(min_count=0)
    R3 = rules.r3_option_map_if_present
    W = [R1, WR.wk1_result_and_then]
    u.emit(F, 'trait Analyzable', pre=inject('\tspec fn pre(self, a: Analyzer) -> bool;\n\tspec fn post(self, r: Self, a0: Analyzer, a1: Analyzer) -> bool;'))
    LK = lambda w: specs('pre_lookup(a, %s)' % w, 'looked_up(a0, a1, %s)' % w)
    u.emit(F, 'impl Analyzable for Declaration', rules=W + [WR.wk2_main_flag, WR.wk3_str_match], pre=specs('pre_d(self, a)', 'looked_up(a0, a1, ids_d(self))'))
    u.emit(F, 'impl Analyzable for Member', rules=W, pre=specs('pre_local(a, 1, 2)', 'post_local(a0, a1, 1, name_of(self.name)) && type_resolved(self.value_type, r.value_type, a1) && (r.name is Ok ==> self.name is Ok)'))
    u.emit(F, 'impl Member', rules=W)
    u.emit(F, 'impl Analyzable for Parameter', rules=W, pre=specs('pre_local(a, 1, 2)', 'post_local(a0, a1, 1, name_of(self.name))'))
    u.emit(F, 'impl Analyzable for FunctionBody', rules=W + [r3_option_map_path('self.return_value')], pre=specs('pre_local(a, ids_f(self), 1)', 'looked_up(a0, a1, ids_f(self))'))
    u.emit(F, 'impl Analyzable for Block', rules=W, pre=specs('pre_local(a, ids_b(self), 1)', 'looked_up(a0, a1, ids_b(self))'))
    u.emit(F, 'impl Analyzable for Statement', rules=W + [R3(['value', 'value_type'])], pre=specs('pre_local(a, ids_s(self), 2)', 'post_local(a0, a1, ids_s(self), names_declared(self)) && (self is Goto ==> goto_recorded(a0, a1, self->Goto_label, self->Goto_location)) && (self is Label ==> label_pruned(a0, a1, self->Label_label))'))
    u.emit(F, 'impl Analyzable for Comparison', rules=W, pre=LK('ids_c(self)'))
    u.emit(F, 'impl Analyzable for Array', rules=W, pre=LK('ids_a(self)'))
    u.emit(F, 'impl Analyzable for Expression', rules=W, pre=LK('ids_e(self)'))
    u.emit(F, 'impl Analyzable for Reference', rules=W, pre=LK('ids_r(self)'))
    u.emit(F, 'impl Analyzable for ReferenceStep', rules=W, pre=LK('ids_step(self)'))
    u.emit(F, 'impl Analyzable for Poisonable<ValueType>', rules=W, pre=specs('pre_lookup(a, 0)', 'looked_up(a0, a1, 0) && type_resolved(self, r, a1)'))
    u.emit(F, 'fn analyze_type', rules=W)
    # ---- the top level: predeclare (+ declare_constant / declare_struct / declare_function), determine_container_depths under their U-SCOPE
    # contracts; obtain_container_depth, postanalyze, analyze under contracts of this unit
    consts = SR.sc1_chain_find('Container', 'Identifier', 'b == !x.is_structure', '*r == x.identifier', BY_NAME,
                               filter_label='C11.scope.constant_lookup_skips_structures', map_label='C11.scope.lookup_projects_the_declared_identifier',
                               find_label='C11.scope.lookup_is_by_name')
    RD = [rules.only_for([':: fn declare_struct'], structs), rules.only_for([':: fn declare_constant'], consts),
          SR.r14_named('Identifier', BY_NAME, find_label='C11.scope.lookup_is_by_name')]
    u.emit(F, IMPL, only=['declare_constant', 'declare_struct', 'declare_function'], rules=RD)
    u.emit(F, IMPL, only=['determine_container_depths'], rules=[SR.sc5_for_mut, SR.sc7_hashset_difference])
    u.emit(F, IMPL, only=['obtain_container_depth'], rules=[WR.wk4_clone_depth,
           SR.r14_named('Container', 'b == (x.identifier.resolution_id == identifier.resolution_id)', find_label='C11.scope.depth_is_read_from_the_container_of_that_id')])
    u.emit(F, 'fn predeclare')
    u.emit(F, 'fn postanalyze')
    u.emit(F, 'fn analyze', rules=[R1])
