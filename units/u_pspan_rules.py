"""Rewrite rules used only by unit U-PSPAN (numbered locally; local, syntactic, counted in unit.rules).

PS1  match peek(T) { Some(X) if G => { A } _ => { B } }
         ->  let ps_guard = match peek(T) { Some(X) => G, None => false }; if ps_guard { A } else { B }
     The guard is evaluated once, on the same peeked token, before either arm runs; the arms are unchanged.  Needed because the
     verifier keeps the reborrow of `T` made by `peek` alive for the whole guarded `match`, so a `return` inside an arm would see an
     unresolved cursor; with the guard hoisted the borrow ends before the arms.  Only for exactly two arms of this shape."""
import re
from vlib.rsparse import LostAnchor, tokenize, match_brackets_lenient as match_brackets


def ps1_hoist_peek_guard(u, key, text):
    pat = re.compile(r'match\s+peek\((\w+)\)\s*\{\s*Some\((\w+)\)\s+if\s+([^{}]*?)=>\s*\{', re.S)
    m = pat.search(text)
    if not m:
        return text
    toks_var, x, guard = m.group(1), m.group(2), m.group(3).strip()
    # arm A: braces starting at m.end()-1
    rest = text[m.end() - 1:]
    t = tokenize(rest)
    mb = match_brackets(t)
    a_end = t[mb[0]].end
    arm_a = rest[:a_end]
    after = rest[a_end:]
    m2 = re.match(r'\s*_\s*=>\s*\{', after, re.S)
    if not m2:
        raise LostAnchor('%s: PS1 second arm is not `_ => { .. }`' % key)
    rest2 = after[m2.end() - 1:]
    t2 = tokenize(rest2)
    mb2 = match_brackets(t2)
    b_end = t2[mb2[0]].end
    arm_b = rest2[:b_end]
    tail = rest2[b_end:]
    m3 = re.match(r'\s*\}', tail)
    if not m3:
        raise LostAnchor('%s: PS1 the guarded match has more than two arms' % key)
    new = ('let ps_guard = match peek(%s) { Some(%s) => %s, None => false };\n\t\tif ps_guard\n\t\t%s\n\t\telse\n\t\t%s'
           % (toks_var, x, guard, arm_a, arm_b))
    u.rules['PS1-hoist-peek-guard'] += 1
    return text[:m.start()] + new + tail[m3.end():]


def ps2_reservation(u, key, text):
    """PS2  { let mut tokens = tokens.with_reservation(TOK); F(tokens.as_mut())? }
              ->  { tokens.ps_reserve(TOK); let ps_result = F(tokens); tokens.ps_release(); ps_result? }
    The guard TokenReservation holds `&mut Tokens` and un-reserves in its Drop impl when the block ends - on the `?` path as well.  The
    verifier has no Drop; the rewritten text makes the drop explicit (rule R9 of U-PARSE does the same for the second-generation cursor).
    ps_reserve / ps_release are GENERATED from the real bodies of Tokens::with_reservation and Drop::drop (reservation_methods)."""
    pat = re.compile(r'let mut tokens = tokens\.with_reservation\((.*?)\);\s*(\w+)\(tokens\.as_mut\(\)\)\?', re.S)
    m = pat.search(text)
    if not m:
        return text
    u.rules['PS2-reservation'] += 1
    new = ('tokens.ps_reserve(%s);\n\t\t\t\tlet ps_result = %s(tokens);\n\t\t\t\ttokens.ps_release();\n\t\t\t\tps_result?' % (m.group(1), m.group(2)))
    return text[:m.start()] + new + text[m.end():]


def reservation_methods(with_reservation_text, drop_text):
    """`impl Tokens { fn ps_reserve .. fn ps_release .. }` from the real texts (contracts in Verus syntax are part of the generated text)"""
    m = re.search(r'fn with_reservation\(&mut self, token: Token\) -> TokenReservation<\'_>\s*\{(.*)\}\s*$', with_reservation_text.strip(), re.S)
    if not m:
        raise LostAnchor('PS2: Tokens::with_reservation is not in the expected form')
    body = m.group(1)
    body2 = re.sub(r'\s*TokenReservation\(self\)\s*$', '\n', body.rstrip())
    if body2 == body.rstrip():
        raise LostAnchor('PS2: with_reservation does not end in `TokenReservation(self)`')
    d = re.search(r'fn drop\(&mut self\)\s*\{(.*)\}\s*\}\s*$', drop_text.strip(), re.S)
    if not d:
        raise LostAnchor('PS2: Drop::drop of TokenReservation not found')
    dbody = d.group(1).replace('self.0.', 'self.')
    return ("impl Tokens\n{\n\tpub fn ps_reserve(&mut self, token: Token)\n"
            "\t\tensures final(self).tokens == old(self).tokens && final(self).last_location == old(self).last_location,\n"
            "\t\t\tfinal(self).reserved_token == (if old(self).reserved_token is Some { old(self).reserved_token } else { Some(token) }),\n"
            "\t{" + body2 + "\t}\n\tpub fn ps_release(&mut self)\n"
            "\t\tensures final(self).tokens == old(self).tokens && final(self).last_location == old(self).last_location && final(self).reserved_token is None,\n"
            "\t{" + dbody + "\t}\n}\n")


def ps3_question_into_poison(u, key, text):
    """PS3  CALL(ARGS)?;   ->   match CALL(ARGS) { Ok(ps_ok) => ps_ok, Err(ps_e) => return Err(core::convert::From::from(ps_e)) };
    in a function that returns Poisonable<_> = Result<_, Poison> while CALL returns Result<_, Error>: the definition of `?` on a Result
    (the Err payload goes through `From::from`, here the verified `impl From<Error> for Poison`), written out because the verifier leaves
    the converted payload of `?` unconstrained.  Only statement-level calls of a plain function (`NAME(..)?;`); anything else: LostAnchor."""
    pat = re.compile(r'\b(\w+\([^;?{}]*\))\?;')
    new, n = pat.subn(lambda m: 'match %s { Ok(ps_ok) => ps_ok, Err(ps_e) => return Err(core::convert::From::from(ps_e)) };' % m.group(1), text)
    if '?' in re.sub(r'"[^"\n]*"', '', new):
        raise LostAnchor('%s: PS3 a `?` is left that is not a statement-level call' % key)
    u.rules['PS3-question-into-poison'] += n
    return new


def ps4_map_err_into(u, key, text):
    """PS4  X.map_err(|e| e.into())   ->   match X { Ok(ps_v) => Ok(ps_v), Err(ps_e) => Err(core::convert::From::from(ps_e)) }
    for a local X (std: Result::map_err applies the closure to a contained Err and leaves an Ok untouched; `e.into()` is `From::from(e)`
    by the blanket impl of Into).  Written out because the verifier knows nothing about the result of an unannotated closure."""
    pat = re.compile(r'\b(\w+)\.map_err\(\|e\| e\.into\(\)\)')
    new, n = pat.subn(lambda m: 'match %s { Ok(ps_v) => Ok(ps_v), Err(ps_e) => Err(core::convert::From::from(ps_e)) }' % m.group(1), text)
    u.rules['PS4-map-err-into'] += n
    return new


def ps5_unwrap_or_else(u, key, text):
    """PS5  X.unwrap_or_else(|| E)   ->   match X { Some(ps_v) => ps_v, None => E }
    for a local X and an expression E without parentheses nesting beyond one call (std: Option::unwrap_or_else "Returns the contained Some value
    or computes it from a closure").  Written out because the closure captures the cursor, which the verifier does not accept."""
    pat = re.compile(r'\b(\w+)\.unwrap_or_else\(\|\| ([\w.]+\(\))\)')
    new, n = pat.subn(lambda m: 'match %s { Some(ps_v) => ps_v, None => %s }' % (m.group(1), m.group(2)), text)
    if 'unwrap_or_else' in new:
        raise LostAnchor('%s: PS5 an unwrap_or_else of another shape' % key)
    u.rules['PS5-unwrap-or-else'] += n
    return new


def ps6_from_utf8(u, key, text):
    """PS6  String::from_utf8(X)  ->  ps_string_from_utf8(X): a TRUSTED wrapper (spec/u_pspan4_spec.rs) whose body is the very call and
    whose result is unconstrained; the error value, which the code ignores (`Err(_error)`), is dropped."""
    new, n = re.subn(r'\bString::from_utf8\(', 'ps_string_from_utf8(', text)
    u.rules['PS6-from-utf8'] += n
    return new
