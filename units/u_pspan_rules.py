"""Rewrite rules used only by unit U-PSPAN (numbered locally; local, syntactic, counted in unit.rules).

PS1  match peek(T) { Some(X) if G => { A } _ => { B } }
         ->  let ps_guard = match peek(T) { Some(X) => G, None => false }; if ps_guard { A } else { B }
     The guard is evaluated once, on the same peeked token, before either arm runs; the arms are unchanged.  Needed because the
     verifier keeps the reborrow of `T` made by `peek` alive for the whole guarded `match`, so a `return` inside an arm would see an
     unresolved cursor; with the guard hoisted the borrow ends before the arms.  Only for exactly two arms of this shape."""
import re
from vlib.rsparse import LostAnchor, tokenize, match_brackets_lenient as match_brackets


def ps1_hoist_peek_guard(u, key, text):
    pat = re.compile(r'match\s+peek\((\w+)\)\s*\{\s*Some\((\w+)\)\s+if\s+([^{}]*?)=>\s*\{', re.S)
    m = pat.search(text)
    if not m:
        return text
    toks_var, x, guard = m.group(1), m.group(2), m.group(3).strip()
    # arm A: braces starting at m.end()-1
    rest = text[m.end() - 1:]
    t = tokenize(rest)
    mb = match_brackets(t)
    a_end = t[mb[0]].end
    arm_a = rest[:a_end]
    after = rest[a_end:]
    m2 = re.match(r'\s*_\s*=>\s*\{', after, re.S)
    if not m2:
        raise LostAnchor('%s: PS1 second arm is not `_ => { .. }`' % key)
    rest2 = after[m2.end() - 1:]
    t2 = tokenize(rest2)
    mb2 = match_brackets(t2)
    b_end = t2[mb2[0]].end
    arm_b = rest2[:b_end]
    tail = rest2[b_end:]
    m3 = re.match(r'\s*\}', tail)
    if not m3:
        raise LostAnchor('%s: PS1 the guarded match has more than two arms' % key)
    new = ('let ps_guard = match peek(%s) { Some(%s) => %s, None => false };\n\t\tif ps_guard\n\t\t%s\n\t\telse\n\t\t%s'
           % (toks_var, x, guard, arm_a, arm_b))
    u.rules['PS1-hoist-peek-guard'] += 1
    return text[:m.start()] + new + tail[m3.end():]
