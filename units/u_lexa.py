r"""U-LEXA: the alpha (first generation, &str/char/String based) lexer src/alpha/lexer.rs, whole functions, unbounded:
lex, lex_line, parse_integer_suffix, is_identifier_continuation.

C14  span bookkeeping protocol of lex_line (start/end track the characters consumed, every pushed token - also the
     early-exit error token of a quoted literal - lies on the given line with a well formed span, spans increasing),
     the same across lines in lex; words (34 reserved words + `_`, builtins, identifiers), punctuation (longest match),
     rejected characters.
C09  value of character/string literals against a declarative element grammar (\n \r \t \\ \' \" \0, \xHH = the single
     byte, \u{..} = UTF-8 of the scalar, graphic ASCII, non-ASCII = UTF-8); integer literals (decimal, 0x, 0b, `_`
     separators, value == positional value of the digits, E140 iff beyond 128 bits, the eleven suffixes, E141 otherwise).

Rules (units/u_lexa_rules.py): RA5 chars().enumerate().peekable() -> CharPeekIter (verified shim over vstd's
unicode_len/get_char), RA6 by-value peek patterns, RA7 string-literal patterns -> `_ if X == "lit"` guards, RA8 char::to_string
-> trusted wrapper, RA9 hoist the temporary of `for b in x.to_string().as_bytes()`, RA10 str::parse::<u128> -> trusted
wrapper, RA11 `for (i, line) in s.lines().enumerate()` -> collected lines + index loop, RA12 chars().count() -> unicode_len,
RA13 str::len -> trusted wrapper; R18 (vlib) type annotations for `tokens` / `offset`.
Trusted (prelude/lexa_std.rs): char::{is_ascii_hexdigit, is_ascii_digit, is_digit, is_ascii_graphic, is_ascii, from_u32,
encode_utf8}, {u8,u32,u128}::from_str_radix on digit strings, str::parse::<u128>, char::to_string, String::{len, as_bytes},
str::len, str::lines (only: sum of (chars+1) <= chars of the source + 1; "" has no lines; a str has <= isize::MAX chars),
derived Clone of Location is the identity, ParseIntError as an opaque type; vstd's own str/String/Vec/Option/Result specs.
contracts/u_lexa.vc is static text (the repeated invariant blocks were typed once with a throw-away script)."""
from vlib import rules
from units import u_lexa_rules as LR
AL = 'src/alpha/lexer.rs'
VT = 'src/alpha/value_type.rs'
C = 'src/alpha/common.rs'
RLIMIT = 200


def build(u):
    u.features.append('allocator_api')
    u.load_contracts('contracts/u_lexa.vc')
    u.raw('pub mod value_type {\nuse vstd::prelude::*;')
    u.emit(VT, 'trait Identifier')
    u.emit(VT, 'enum ValueType', derive_drop=['Clone', 'PartialEq'])
    u.raw('} // mod value_type')
    u.include('prelude/lexa_std.rs')
    u.include('prelude/lexa_char_iter.rs')
    u.emit(AL, 'enum Token', derive_drop=['PartialEq'])
    u.emit(AL, 'enum Error')
    u.emit(AL, 'struct Location', derive_drop=['Clone'])
    u.emit(AL, 'struct LexedToken')
    u.emit(C, 'struct Identifier')
    u.emit(C, 'impl value_type::Identifier for Identifier')
    u.emit(C, 'impl PartialEq for Identifier')
    u.emit(C, 'type ValueType')
    u.include('spec/u_lexa_spec.rs', kind='spec')
    u.emit(AL, 'fn is_identifier_continuation')
    u.emit(AL, 'fn parse_integer_suffix', rules=[LR.str_patterns])
    u.emit(AL, 'fn strip_line_terminator', rules=LR.STRIP_RULES)
    u.emit(AL, 'fn lex_line', rules=LR.LEX_LINE_RULES)
    u.emit(AL, 'fn lex', rules=LR.LEX_RULES + [rules.r18_annotate('tokens', 'Vec<LexedToken>'), rules.r18_annotate('offset', 'usize')])
