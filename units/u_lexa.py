"""U-LEXA: the alpha (first generation, char/String based) lexer src/alpha/lexer.rs: lex_line, parse_integer_suffix,
is_identifier_continuation (C14 span bookkeeping, C09 escape decoding / integer literal values)."""
from vlib import rules
from units import u_lexa_rules as LR
AL = 'src/alpha/lexer.rs'
VT = 'src/alpha/value_type.rs'
C = 'src/alpha/common.rs'
RLIMIT = 200


def build(u):
    u.features.append('allocator_api')
    u.load_contracts('contracts/u_lexa.vc')
    u.raw('pub mod value_type {\nuse vstd::prelude::*;')
    u.emit(VT, 'trait Identifier')
    u.emit(VT, 'enum ValueType', derive_drop=['Clone', 'PartialEq'])
    u.raw('} // mod value_type')
    u.include('prelude/lexa_std.rs')
    u.include('prelude/lexa_char_iter.rs')
    u.emit(AL, 'enum Token', derive_drop=['PartialEq'])
    u.emit(AL, 'enum Error')
    u.emit(AL, 'struct Location', derive_drop=['Clone'])
    u.emit(AL, 'struct LexedToken')
    u.emit(C, 'struct Identifier')
    u.emit(C, 'impl value_type::Identifier for Identifier')
    u.emit(C, 'impl PartialEq for Identifier')
    u.emit(C, 'type ValueType')
    u.include('spec/u_lexa_spec.rs', kind='spec')
    u.emit(AL, 'fn is_identifier_continuation')
    u.emit(AL, 'fn parse_integer_suffix', rules=[LR.str_patterns])
    u.emit(AL, 'fn lex_line', rules=LR.LEX_LINE_RULES)
    u.emit(AL, 'fn lex', rules=LR.LEX_RULES + [rules.r18_annotate('tokens', 'Vec<LexedToken>'), rules.r18_annotate('offset', 'usize')])
