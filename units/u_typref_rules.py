"""Rewrite rules used only by unit U-TYPREF.  Same conventions as vlib/rules.py: local, syntactic, counted in `unit.rules`."""
import re
from vlib import rsparse
from vlib.rsparse import LostAnchor, tokenize


def _enumerate_loop(text, key, header_re, decl, elem, tag):
    """`for (IDX, X) in SEQ.iter[_mut]().enumerate() { BODY }` ->
         let TAG_n = SEQ.len(); let mut IDX: usize = 0; while IDX < TAG_n { let X = ELEM; BODY IDX += 1; }
    (enumerate counts from 0 in iteration order; only for bodies without continue/break - `return` is fine)"""
    m = header_re.search(text)
    if not m:
        return text, 0
    rest = text[m.end() - 1:]
    toks = tokenize(rest)
    match = rsparse.match_brackets_lenient(toks)
    close = match[0]
    body = rest[toks[0].end:toks[close].start]
    if re.search(r'\b(continue|break)\b', body):
        raise LostAnchor('%s: %s body contains continue/break' % (key, tag))
    idx = m.group(1)
    new = ('%s\n\t\tlet mut %s: usize = 0;\n\t\twhile %s < %s_n\n\t\t{\n\t\t\t%s%s\t%s += 1;\n\t\t}'
           % (decl, idx, idx, tag, elem, body, idx))
    return text[:m.start()] + new + text[m.end() - 1 + toks[close].end:], 1


def tr1_steps_iter_mut(u, key, text):
    """TR1 (Typer::get_type_of_reference): `for (num_steps_taken, step) in reference.steps.iter_mut().enumerate()` -> index loop with
    `let step = &mut reference.steps[num_steps_taken];`"""
    pat = re.compile(r'for\s*\(\s*(num_steps_taken)\s*,\s*step\s*\)\s*in\s+reference\.steps\.iter_mut\(\)\.enumerate\(\)\s*\{')
    text, n = _enumerate_loop(text, key, pat, 'let tr1_n = reference.steps.len();', 'let step = &mut reference.steps[num_steps_taken];', 'tr1')
    if n:
        u.rules['TR1-iter_mut-enumerate'] += n
    return text


def tr2_members_enumerate(u, key, text):
    """TR2 (Typer::analyze_member_access): `for (offset, member) in structure.members.iter().enumerate()` -> index loop with
    `let member = &structure.members[offset];`"""
    pat = re.compile(r'for\s*\(\s*(offset)\s*,\s*member\s*\)\s*in\s+structure\.members\.iter\(\)\.enumerate\(\)\s*\{')
    text, n = _enumerate_loop(text, key, pat, 'let tr2_n = structure.members.len();', 'let member = &structure.members[offset];', 'tr2')
    if n:
        u.rules['TR2-iter-enumerate'] += n
    return text


def tr3_continue_to_else(u, key, text):
    """TR3: inside a loop body, `if C { continue; } REST` (REST = everything up to the end of the loop body) -> `if C { } else { REST }`
    (Verus: for-loops do not support `continue`).  Only when the `if` block holds nothing but the `continue`."""
    n = 0
    while True:
        toks = tokenize(text)
        match = rsparse.match_brackets_lenient(toks)
        inv = {v: k for k, v in match.items()}
        site = None
        for i, t in enumerate(toks):
            if t.text == 'continue' and i >= 1 and toks[i - 1].text == '{' and toks[i + 1].text == ';' and toks[i + 2].text == '}':
                site = i
                break
        if site is None:
            break
        if_open, if_close = site - 1, site + 2
        # the enclosing block: the nearest `{` before if_open whose match lies after if_close
        enc = None
        for j in range(if_open - 1, -1, -1):
            if toks[j].text == '{' and j in match and match[j] > if_close:
                enc = j
                break
        if enc is None:
            raise LostAnchor('%s: TR3 no enclosing loop body' % key)
        end = match[enc]
        rest = text[toks[if_close].end:toks[end].start]
        text = text[:toks[if_open].start] + '{ } else {' + rest.rstrip() + '\n\t\t\t}\n\t\t' + text[toks[end].start:]
        u.rules['TR3-continue-to-else'] += 1
        n += 1
    return text
