"""U-PSPAN2 (C13) - the sister unit of U-PSPAN: parse_primary_expression and parse_rest_of_array of src/alpha/parser.rs VERIFIED under the
uniform span contract (spec/u_pspan_spec.rs), every other parse function of the expression layer external with the very contract text
that U-PSPAN proves (same contracts/u_pspan.vc, same generator code).  The two units close each other's assumption by matching text."""
from units import u_pspan
RLIMIT = 40


def build(u):
    u_pspan.build_with(u, ('parse_primary_expression', 'parse_rest_of_array'))
