"""Shared extraction of the alpha AST types for the statement-tree units (U-SYN, U-LABEL, U-LINT)."""
C = 'src/alpha/common.rs'
E = 'src/alpha/error.rs'


def emit_ast(u):
    u.load_contracts('contracts/ast_common.vc')
    u.include('prelude/ast_opaque.rs')
    u.opaque += ['Location', 'Expression', 'Comparison', 'Reference', 'Builtin', 'Parameter', 'Member', 'ValueType',
                 'OperandValueType', 'DeclarationFlag', 'EnumSet<T>', 'lexer::Error']
    u.emit(C, 'struct Identifier', derive_drop=['Clone'])
    u.emit(E, 'enum Poison', derive_drop=['Clone'])
    u.emit(E, 'enum Error', derive_drop=['Clone'])
    u.emit(C, 'enum Declaration', derive_drop=['Clone'])
    u.emit(C, 'struct FunctionBody', derive_drop=['Clone'])
    u.emit(C, 'struct Block', derive_drop=['Clone'])
    u.emit(C, 'enum Statement', derive_drop=['Clone'])
    u.emit(C, 'impl Statement')
    u.emit(C, 'struct Else', derive_drop=['Clone'])
    u.include('spec/ast_common_spec.rs', kind='spec')
