"""U-TYPARG (C07: no implicit conversions) - structure literals and call arguments in the typer.
  src/alpha/typer.rs   fn analyze_structural                                  (recorded finding D19 lives here)
                       Typer::{declare_function_parameters, analyze_function_arguments, analyze_unhinted_arguments,
                               analyze_hinted_arguments}                      (one of the two places that insert Autocoerce)
                       trait Typed / impl Typed for Expression, the symbol-table functions of U-SYM (re-verified, contracts imported)
Clauses are stated as the property demands; on a tree where a structure literal member is not unified with the declared member
type the loop invariant C07.typarg.member_value_is_unified_with_declared_member_type is not preserved (D19).
D20 (`foo(&&x)` accepted for a `&i32` parameter) is NOT in these functions: the excess address is dropped inside
Reference::autoderef (reached through Expression::analyze, outside contracts) - see the unit notes."""
from units.u_align import emit_types, import_contracts, VT_IMPL
from units.u_vt import r25_deref_box_eq
from units.u_extern_rules import r_assert_message
from units.u_typst import inject
from units import u_typarg_rules as tar
from vlib import rules

C = 'src/alpha/common.rs'
E = 'src/alpha/error.rs'
T = 'src/alpha/typer.rs'

VT_FNS = ['is_wellformed', 'is_wellformed_element', 'is_wellformed_inner', 'can_be_element',
          'can_be_concretization_of', 'is_like', 'can_be_declared_as', 'can_coerce_into', 'equals', 'is_alias_of', 'for_string_literal']
SYM_FNS = ['put_symbol', 'poison_symbol', 'get_symbol']
ARG_FNS = ['declare_function_parameters', 'analyze_function_arguments', 'analyze_unhinted_arguments', 'analyze_hinted_arguments']


def build(u):
    u.load_contracts('contracts/u_typarg.vc')
    import_contracts(u, 'contracts/u_sym.vc', ['fn do_update_symbol', 'impl Identifier :: fn inferred', 'impl PartialEq for Identifier :: fn eq', 'impl From<Error> for Poison :: fn from']
                     + ['impl Typer :: fn %s' % f for f in SYM_FNS])
    import_contracts(u, 'contracts/u_typst.vc', ['impl Typed for Expression :: fn value_type', 'impl ReferenceStep :: fn get_member'])
    u.notes += [
        'ASSUMED callee contracts (prelude/typarg_callees.rs, external bodies): Expression::analyze, Poisonable<ValueType>::analyze (analyze_type) - same text and the same three thin facts as in U-TYPST - '
        'and Typer::analyze_member_access (uninterpreted function of the abstract typer state)',
        'caller obligations: the symbol table is well formed; analyze_type of the literal\'s type yields a struct or a word (else unreachable!())',
        'verified shims (the restatement of the iterator chains is what is trusted): HintIter (prelude/typarg_hints.rs, rules TA1/TA2: zip / chain / repeat / map(Some)), ex_map_collect '
        '(prelude/expand_slice.rs, rule TA3), steps_last_member (prelude/typst_helpers.rs, only because spec/u_typst_spec.rs refers to it)',
        'trusted: as U-SYM / U-TYPST (HashMap::get_mut spec, Result::clone spec, [T]::reverse spec, vstd HashMap/Vec/Option/Result specs, derived Clone identity, derived PartialEq of ValueType is teq)',
        'D20 is outside these functions: analyze_hinted_arguments only passes the hint and wraps documented coercions; the argument `&&x` loses its second `&` in Reference::autoderef '
        '(typer.rs, `else if self.address_depth > 0 && Some(&current_type) == target_type.get_pointee_type().as_ref()`), which is reached through Expression::analyze and is not under contract',
    ]
    plain_emit = u.emit

    def emit_with_r25(rel, spec, **kw):
        if spec == VT_IMPL:
            kw['rules'] = list(kw.get('rules', ())) + [r25_deref_box_eq]
        return plain_emit(rel, spec, **kw)
    u.emit = emit_with_r25
    try:
        emit_types(u, VT_FNS)
    finally:
        del u.emit
    u.opaque += ['DeclarationFlag', 'EnumSet<T>']
    u.include('prelude/sym_std.rs')
    u.include('prelude/typst_opaque.rs')
    for it in ['enum BinaryOp', 'enum UnaryOp', 'enum ComparisonOp', 'enum Builtin']:
        u.emit(C, it)
    for it in ['struct Parameter', 'struct Array', 'struct MemberExpression', 'enum Expression', 'enum DesliceOffset', 'enum ReferenceStep', 'struct Reference',
               'struct Comparison', 'struct Else', 'enum Statement', 'struct Block', 'struct FunctionBody']:
        u.emit(C, it, derive_drop=['Clone'])
    u.emit(T, 'struct Typer', pub_fields=True)
    u.emit(T, 'struct Symbol', pub_fields=True)
    u.emit(T, 'struct Function', pub_fields=True)
    u.emit(T, 'struct Structure', pub_fields=True)
    u.include('spec/u_sym_spec.rs', kind='spec')
    u.include('spec/u_typst_spec.rs', kind='spec')
    u.include('spec/u_typas_spec.rs', kind='spec')
    u.include('spec/u_typref_spec.rs', kind='spec')
    u.include('prelude/typst_helpers.rs')
    u.include('prelude/expand_slice.rs')
    u.include('prelude/typarg_hints.rs')
    u.include('spec/u_typarg_spec.rs', kind='spec')
    u.emit(E, 'impl From<Error> for Poison')
    u.emit(C, 'impl Identifier', only=['inferred'])
    u.emit(C, 'impl ReferenceStep', only=['get_member'])
    u.emit(T, 'fn do_update_symbol', rules=[r_assert_message])
    u.emit(T, 'trait Typed')
    u.emit(T, 'impl Typed for Expression')
    u.emit(T, 'trait Analyzable', pre=inject('\tspec fn pre(self, t: Typer) -> bool;\n\tspec fn post(self, r: Self, t0: Typer, t1: Typer) -> bool;'))
    u.include('prelude/typarg_callees.rs')
    u.emit(T, 'impl Typer', only=SYM_FNS + ARG_FNS, rules=[tar.ta1_zip_hints, tar.ta2_hint_iterators, tar.ta3_parameter_types])
    u.emit(T, 'fn analyze_structural', rules=[rules.r1_r2_map_collect(min_count=0), r_assert_message])
