"""Rewrite rules of U-LEXA (alpha lexer, char/String based).  Same discipline as vlib/rules_lexer.py: local, syntactic,
semantics-preserving by the definition of the std item involved, counted in u.rules, LostAnchor when a required
pattern is absent."""
import re
from vlib.rsparse import LostAnchor


def ra5_char_peek_iter(u, key, text):
    """RA5: `E.chars().enumerate().peekable()` -> `CharPeekIter::new(E)` (verified shim, prelude/lexa_char_iter.rs)"""
    pat = re.compile(r'\b(\w+)\.chars\(\)\.enumerate\(\)\.peekable\(\)')
    n = len(pat.findall(text))
    if not n:
        raise LostAnchor('%s: RA5 `.chars().enumerate().peekable()` not found' % key)
    u.rules['RA5'] += n
    return pat.sub(r'CharPeekIter::new(\1)', text)


def ra6_by_value_patterns(u, key, text):
    """RA6 (= R6): the shim's peek() returns by value: `Some(&(_, y)) = iter.peek()` -> `Some((_, y)) = iter.peek()`.
    (`Some((_, '<'))` patterns against `Option<&(usize, char)>` rely on default binding modes and need no change.)"""
    pat = re.compile(r'Some\(&\(')
    n = len(pat.findall(text))
    if n:
        u.rules['RA6'] += n
        text = pat.sub('Some((', text)
    return text


STR_LIT = r'"(?:[^"\\]|\\.)*"'


def str_patterns(u, key, text):
    """RA7: string literal patterns `"fn" =>` of `match X {` become guards `_ if X == "fn" =>` (Verus translates a
    string-literal pattern into structural equality of `str` values, which is unrelated to the character view;
    exec `==` on `&str` is specified by vstd as equality of views).  Arm order is preserved (first match wins)."""
    arm = re.compile(r'(?m)^(\s*)(' + STR_LIT + r')(\s*)=>')
    out, pos, n = [], 0, 0
    for m in arm.finditer(text):
        mm = None
        for mm in re.finditer(r'match\s+([\w.()]+?)\s*\{?\s*$', text[:m.start()], re.M):
            pass
        if mm is None:
            raise LostAnchor('%s: RA7 cannot find scrutinee' % key)
        out.append(text[pos:m.start()])
        out.append('%s_ if %s == %s%s=>' % (m.group(1), mm.group(1), m.group(2), m.group(3)))
        pos = m.end()
        n += 1
    out.append(text[pos:])
    if n:
        u.rules['RA7'] += n
    return ''.join(out)


def ra9_hoist_for_temporary(u, key, text):
    """RA9: `for byte in x.to_string().as_bytes()` -> `let lexa_tmp = x.to_string(); for byte in lexa_tmp.as_bytes()`
    (Verus' desugaring of `for` drops the temporary String too early: rustc E0716 on the generated file).  Each of the
    loops is the only statement of its block, so the new `let` does not change any drop order that matters."""
    pat = re.compile(r'for (\w+) in (\w+)\.to_string\(\)\.as_bytes\(\)')
    n = len(pat.findall(text))
    if n:
        u.rules['RA9'] += n
        text = pat.sub(r'let lexa_tmp = \2.to_string(); for \1 in lexa_tmp.as_bytes()', text)
    return text


def ra8_char_to_string(u, key, text):
    """RA8: `x.to_string()` with `x: char` -> `lexa_char_to_string(x)`, a trusted wrapper around the same call with the
    spec "the string consisting of that one character" (vstd specifies `to_string` on `&str` but not on `char`; the
    call is accepted with an unconstrained result).  `x` is the name of the current character in every arm of lex_line;
    the wrapper's parameter type `char` makes rustc reject the generated file if `x` is anything else."""
    pat = re.compile(r'(?<![\w.])x\.to_string\(\)')
    n = len(pat.findall(text))
    if n:
        u.rules['RA8'] += n
        text = pat.sub('lexa_char_to_string(x)', text)
    return text


def ra10_parse_u128(u, key, text):
    """RA10: `literal.parse()` (type inferred as u128 from `Token::NakedDecimal(value)`) -> `lexa_parse_u128(&literal)`,
    a trusted wrapper around `str::parse::<u128>` (generic over FromStr, no Verus spec possible)."""
    pat = re.compile(r'\bmatch (\w+)\.parse\(\)')
    n = len(pat.findall(text))
    if n:
        u.rules['RA10'] += n
        text = pat.sub(r'match lexa_parse_u128(&\1)', text)
    return text


def ra11_lines_loop(u, key, text):
    """RA11: `for (i, full_line) in source.split_inclusive('\\n').enumerate() {` ->
    `let lexa_pieces = lexa_split_inclusive(source); for i in 0..lexa_pieces.len() { let full_line = lexa_pieces[i];`
    where lexa_split_inclusive is the trusted wrapper `source.split_inclusive('\\n').collect::<Vec<&str>>()`
    (prelude/lexa_std.rs) with the exact model of that std function.  The iterator is lazy but pure and the body only holds
    a shared borrow of `source`, so collecting first and indexing is the same iteration (cf. R1/R17)."""
    pat = re.compile(r"for \((\w+), (\w+)\) in (\w+)\.split_inclusive\('\\n'\)\.enumerate\(\)(\s*)\{")
    m = pat.search(text)
    if not m:
        raise LostAnchor("%s: RA11 `for (i, line) in S.split_inclusive('\\n').enumerate()` not found" % key)
    u.rules['RA11'] += 1
    return text[:m.start()] + 'let lexa_pieces = lexa_split_inclusive(%s);%sfor %s in 0..lexa_pieces.len()%s{%s\tlet %s = lexa_pieces[%s];' % (
        m.group(3), m.group(4), m.group(1), m.group(4), m.group(4), m.group(2), m.group(1)) + text[m.end():]


def ra14_strip_suffix_char(u, key, text):
    """RA14: `E.strip_suffix('c')` (generic over the std Pattern trait, which Verus cannot specify) ->
    `lexa_strip_suffix_char(E, 'c')`, a trusted wrapper around the same call for a char pattern"""
    pat = re.compile(r"\b(\w+)\.strip_suffix\(('(?:\\.|[^'])')\)")
    n = len(pat.findall(text))
    if n:
        u.rules['RA14'] += n
        text = pat.sub(r'lexa_strip_suffix_char(\1, \2)', text)
    return text


def ra12_chars_count(u, key, text):
    """RA12: `E.chars().count()` -> `E.unicode_len()` (vstd's name for exactly that: number of characters of a str)"""
    pat = re.compile(r'\b(\w+)\.chars\(\)\.count\(\)')
    n = len(pat.findall(text))
    if n:
        u.rules['RA12'] += n
        text = pat.sub(r'\1.unicode_len()', text)
    return text


def ra13_str_len(u, key, text):
    """RA13: `source.len()` (byte length of a &str) -> `lexa_str_len(source)`, a trusted wrapper around the same call whose
    spec is "length of the UTF-8 encoding; zero iff there are no characters".  vstd does specify `str::len`, but by an
    uninterpreted `spec_len` unrelated to the character view, and a second assume_specification is rejected."""
    pat = re.compile(r'(?<![\w.])source\.len\(\)')
    n = len(pat.findall(text))
    if n:
        u.rules['RA13'] += n
        text = pat.sub('lexa_str_len(source)', text)
    return text


from vlib import rules
LEX_RULES = [ra11_lines_loop, ra12_chars_count, ra13_str_len]
STRIP_RULES = [ra14_strip_suffix_char]
LEX_LINE_RULES = [rules.r26_map_or_match, ra5_char_peek_iter, ra6_by_value_patterns, str_patterns, ra9_hoist_for_temporary, ra8_char_to_string,
                  ra10_parse_u128]
