"""U-TYPREF (C07: no implicit conversions) - the type of a place (`base steps..`) in the typer.
  src/alpha/typer.rs   Typer::get_type_of_reference, Typer::analyze_member_access (+ get_symbol of U-SYM, re-verified)
The type answered for a place is the recorded type of its base taken apart step by step (spec/u_typref_spec.rs: type_of_place):
element type of an array form for an index step, recorded type of the member (found by name in declaration order) for a member
step, always looking through pointers and views; `&` markers add one pointer level each; nothing else.  This is the hint that
U-TYPST leaves uninterpreted (gtr_type / gtr_ref) for assignments.
NOT in this unit (out of reach in the time given, see the notes): analyze_assignment_steps, Reference::autoderef, Reference::analyze_length."""
from units.u_align import emit_types, import_contracts, VT_IMPL
from units.u_vt import r25_deref_box_eq
from units.u_extern_rules import r_assert_message
from units import u_typref_rules as trr
from vlib import rules

C = 'src/alpha/common.rs'
E = 'src/alpha/error.rs'
T = 'src/alpha/typer.rs'

VT_FNS = ['is_wellformed', 'is_wellformed_element', 'is_wellformed_inner', 'can_be_element', 'get_element_type', 'fully_dereferenced', 'is_slice_pointer',
          'for_string_literal']


def build(u):
    u.load_contracts('contracts/u_typref.vc')
    import_contracts(u, 'contracts/u_typst.vc', ['impl ReferenceStep :: fn get_member'])
    import_contracts(u, 'contracts/u_sym.vc', ['impl PartialEq for Identifier :: fn eq', 'impl From<Error> for Poison :: fn from', 'impl Typer :: fn get_symbol'])
    u.notes += [
        'caller obligations (gtr_pre): the symbol table is well formed; a structure type that a place passes through has been declared in the structure table '
        '(unreachable!() of analyze_member_access; established by forward_declare_structure / align_struct, not verified here)',
        'trusted: as U-SYM; rules TR1 / TR2 restate `iter_mut().enumerate()` / `iter().enumerate()` loops as index loops, TR3 turns `if c { continue; } rest` into `if c { } else { rest }`; '
        'vstd specs of Vec index_mut (`&mut reference.steps[i]`) and String ==',
        'analyze_assignment_steps is not sliced (two `for .. { match current_type { .. _ => break } }` loops whose exit facts Verus does not carry out of a for-loop, try_into): its unreachable!() sites '
        'cannot be proved from "the table is well formed and the base type is the declared type" - counterexample on the real pipeline: `var x: i32 = 1; x[0] = 2;` panics at typer.rs:2165 '
        '(get_type_of_reference answers E501 NotAnArray WITHOUT recording it in the reference, Statement::Assignment uses the answer only as a hint, analyze_assignment_steps then meets an index step on i32); '
        'the precondition they need is "type_of_place of the reference is typed"',
        'Reference::autoderef is not sliced (330 lines over a peekable iterator with by-value matches on (current_type, peek())); a further explicit panic!() of its failure branch is reachable: '
        '`fn foo(a: &[]i32, s: &[]i32) { a[0] = s; }` (\"This currently has no solution because fully_dereferenced makes no sense here\")',
    ]
    emit_types(u, VT_FNS)
    u.opaque += ['DeclarationFlag', 'EnumSet<T>']
    u.include('prelude/sym_std.rs')
    u.include('prelude/typst_opaque.rs')
    for it in ['enum BinaryOp', 'enum UnaryOp', 'enum ComparisonOp', 'enum Builtin']:
        u.emit(C, it)
    for it in ['struct Parameter', 'struct Array', 'struct MemberExpression', 'enum Expression', 'enum DesliceOffset', 'enum ReferenceStep', 'struct Reference',
               'struct Comparison', 'struct Else', 'enum Statement', 'struct Block', 'struct FunctionBody']:
        u.emit(C, it, derive_drop=['Clone'])
    u.emit(T, 'struct Typer', pub_fields=True)
    u.emit(T, 'struct Symbol', pub_fields=True)
    u.emit(T, 'struct Function', pub_fields=True)
    u.emit(T, 'struct Structure', pub_fields=True)
    u.include('spec/u_sym_spec.rs', kind='spec')
    u.include('spec/u_typst_spec.rs', kind='spec')
    u.include('spec/u_typas_spec.rs', kind='spec')
    u.include('prelude/typst_helpers.rs')
    u.include('spec/u_typref_spec.rs', kind='spec')
    u.emit(E, 'impl From<Error> for Poison')
    u.emit(C, 'impl ReferenceStep', only=['get_member'])
    u.emit(T, 'impl Typer', only=['get_symbol', 'get_type_of_reference', 'analyze_member_access'],
           rules=[trr.tr1_steps_iter_mut, trr.tr2_members_enumerate, trr.tr3_continue_to_else, r_assert_message])
