"""Rewrite rules used only by unit U-EXPAND (DESIGN.md 2.3 conventions; numbered locally).  Every rule is local and syntactic,
counts itself in `unit.rules`, and raises LostAnchor when a pattern it is asked for is not there (exit 2, never an alarm).
What a rule leaves in the text is either the same std call under another spelling, or a call of a helper of
prelude/expand_std.rs (TRUSTED wrapper around the very std call: its body IS that call) / prelude/expand_slice.rs (VERIFIED
re-statement of an iterator chain as a loop).

EX1  loops over `&mut` elements become index loops (Verus has no usable invariant vocabulary for slice::IterMut):
       for (I, X) in V.iter_mut().enumerate() { B }  ->  let mut I: usize = 0; while I < V.len() { let X = &mut V[I]; B I += 1; }
       for PAT in V.iter_mut() { B }                 ->  let mut ex_jN: usize = 0; while ex_jN < V.len() { let PAT = &mut V[ex_jN]; B ex_jN += 1; }
       for X in &mut V[A..K] { B }                   ->  let ex_hiN: usize = K; let mut ex_jN: usize = A; assert!(ex_hiN <= V.len());
                                                         while ex_jN < ex_hiN { let X = &mut V[ex_jN]; B ex_jN += 1; }
     Same elements, same order, same borrows (one element at a time instead of the whole slice; B cannot tell, it only holds
     X).  Only for bodies without `continue`/`break` (else LostAnchor).  The `assert!` keeps the panic of an out-of-range
     slice `V[A..K]` in front of the first iteration, where the original has it; Verus has to prove it cannot fire.
EX2  closure literals handed to std adapters get a typed head and a ghost contract (CLOSURES table of the unit, chosen by
     adapter and by the shape of the parameter pattern):   |PAT| BODY   ->
       |ex_p: T| -> (ex_r: R) ensures ENS { let ex_r = { let PAT = ex_p; BODY }; proof { assert(ENS); /*label*/ } ex_r }
     (a plain identifier pattern is used as the parameter name itself).  Verus checks ENS against the REAL body; the ghost
     assert makes a body that no longer meets ENS fail as a NAMED assertion.  Tuple patterns in closure heads are outside the
     Verus dialect, `let PAT = ex_p;` binds the same names to the same places (default binding modes).
EX3  std adapter calls -> helpers that take the closure plus the ghost function it computes:
       S.iter().map(CL).collect()          ->  S.ex_map_collect(CL)                      VERIFIED helper (loop)
       S.iter().filter_map(CL).collect()   ->  S.ex_filter_map_collect(CL, Ghost(sel), Ghost(rel))     VERIFIED helper (loop)
       S.iter().take_while(CL).count()     ->  S.ex_take_while_count(CL, Ghost(pred))    VERIFIED helper (loop); not in the pinned code,
                                               so that counting the leading imports instead of sorting is JUDGED, not rejected
       V.drain(..).filter_map(CL).collect() -> V.ex_drain_filter_map_collect(CL, Ghost(sel), Ghost(rel))   TRUSTED wrapper; not in the pinned
                                               code, so that MOVING the declarations out of the importee is JUDGED, not rejected
       V.sort_by_key(CL)                   ->  V.ex_sort_by_key(CL, Ghost(key))          TRUSTED wrapper, spec = std doc (stable)
       V.partition_point(CL)               ->  V.ex_partition_point(CL, Ghost(pred))     TRUSTED wrapper, spec = std doc
       V.retain(CL)                        ->  V.ex_retain(CL, Ghost(pred))              TRUSTED wrapper (Vec and HashSet model)
       V.splice(R, E);                     ->  V.ex_splice(R, E);                        TRUSTED wrapper (the Splice is dropped at once)
EX4  HashSet: `for PAT in H {` where H is a local bound by `let [mut] H = HashSet::new()`  ->
     `let ex_order = H.ex_into_vec(); for PAT in ex_order {`   (ex_into_vec = `self.into_iter().collect()`, trusted: the
     elements in SOME order, each once - nothing else is assumed about the order; the name lets the invariants speak of it).
     A local bound by `Vec::new()` and consumed by a `for` is named the same way (`let ex_order = H;`, a move), so that a change
     from the set to a vector is JUDGED by the same invariants instead of losing them.  `HashSet` itself names the
     trusted set model of prelude/expand_std.rs.
EX5  `X.to_string()` -> `X.ex_to_string()` (trusted wrapper around the same call for String and str: a copy of the text;
     String reaches `to_string` through the blanket `impl<T: Display> ToString for T`, which cannot be given a spec per type)
EX6  deref coercions that the abstract path model cannot perform are written out at the call of get_key_offset:
       get_key_offset(A, B, C)  ->  get_key_offset(A, B, (C).as_path())          (`&mut PathBuf -> &Path` is `PathBuf::as_path`)
"""
import re
from vlib.rsparse import LostAnchor, tokenize, match_brackets
from vlib.rules import _seq, _as_block
from units.u_keyoff_rules import _postfix_start


def _body_block(text, toks, match, k):
    """index of the `{` that opens the loop body: first `{` at bracket depth 0 from token k on"""
    j = k
    while j < len(toks):
        t = toks[j]
        if t.kind == 'p' and t.text in ('(', '['):
            j = match[j] + 1
            continue
        if t.kind == 'p' and t.text == '{':
            return j
        j += 1
    raise LostAnchor('loop body not found')


def _no_jump(key, body):
    if re.search(r'\b(continue|break)\b', body):
        raise LostAnchor('%s: EX1 loop body contains continue/break' % key)


def r_mut_loops(u, key, text):
    """EX1"""
    n = 0
    while True:
        toks = tokenize(text)
        match = match_brackets(toks)
        site = None
        for i, t in enumerate(toks):
            if not (t.kind == 'id' and t.text == 'for'):
                continue
            # pattern up to `in`
            j = i + 1
            while j < len(toks) and not (toks[j].kind == 'id' and toks[j].text == 'in'):
                if toks[j].text in ('(', '['):
                    j = match[j]
                j += 1
            if j >= len(toks):
                continue
            bopen = _body_block(text, toks, match, j + 1)
            pat = text[toks[i + 1].start:toks[j].start].strip()
            expr = text[toks[j + 1].start:toks[bopen].start].strip()
            body = text[toks[bopen].end:toks[match[bopen]].start]
            end = toks[match[bopen]].end
            m = re.match(r'^([\w.]+)\s*\.\s*iter_mut\(\)\s*\.\s*enumerate\(\)$', expr)
            if m:
                mp = re.match(r'^\(\s*(\w+)\s*,\s*(\w+)\s*\)$', pat)
                if not mp:
                    raise LostAnchor('%s: EX1 enumerate pattern %r' % (key, pat))
                site = ('enum', i, end, m.group(1), mp.group(1), mp.group(2), body)
                break
            m = re.match(r'^([\w.]+)\s*\.\s*iter_mut\(\)$', expr)
            if m:
                site = ('iter', i, end, m.group(1), pat, None, body)
                break
            m = re.match(r'^&\s*mut\s+([\w.]+)\s*\[\s*([^\[\]]+?)\s*\.\.\s*([^\[\]]+?)\s*\]$', expr)
            if m:
                site = ('range', i, end, m.group(1), pat, (m.group(2), m.group(3)), body)
                break
        if site is None:
            break
        kind, i, end, v, a, b, body = site
        _no_jump(key, body)
        body = body.rstrip()
        if kind == 'enum':
            new = ('let mut %s: usize = 0;\n\t\twhile %s < %s.len()\n\t\t{\n\t\t\tlet %s = &mut %s[%s];%s\n\t\t\t%s += 1;\n\t\t}'
                   % (a, a, v, b, v, a, body, a))
            u.rules['EX1-iter-mut-enumerate'] += 1
        elif kind == 'iter':
            j = 'ex_j%d' % n
            new = ('let mut %s: usize = 0;\n\t\twhile %s < %s.len()\n\t\t{\n\t\t\tlet %s = &mut %s[%s];%s\n\t\t\t%s += 1;\n\t\t}'
                   % (j, j, v, a, v, j, body, j))
            u.rules['EX1-iter-mut'] += 1
        else:
            j, hi = 'ex_j%d' % n, 'ex_hi%d' % n
            lo, k = b
            new = ('let %s: usize = %s;\n\t\tlet mut %s: usize = %s;\n\t\tassert!(%s <= %s.len());\n\t\twhile %s < %s\n\t\t{\n\t\t\tlet %s = &mut %s[%s];%s\n\t\t\t%s += 1;\n\t\t}'
                   % (hi, k, j, lo, hi, v, j, hi, a, v, j, body, j))
            u.rules['EX1-mut-subslice'] += 1
        text = text[:toks[i].start] + new + text[end:]
        n += 1
    return text


def _typed_closure(u, key, adapter, param, body, closures):
    simple = re.match(r'^\w+$', param) is not None
    shape = 'ident' if simple else 'tuple'
    cfg = closures.get((adapter, shape))
    if cfg is None:
        raise LostAnchor('%s: EX2 no closure contract for a %s closure with a %s parameter' % (key, adapter, shape))
    pname = param if simple else 'ex_p'
    ens = cfg['ens'].replace('$P', pname)
    bind = '' if simple else 'let %s = %s; ' % (param, pname)
    u.rules['EX2-typed-closure'] += 1
    return ('|%s: %s| -> (ex_r: %s)\n\t\t\t\tensures %s\n\t\t\t{\n\t\t\t\tlet ex_r = { %s%s };\n\t\t\t\tproof { assert(%s); /*@L:%s*/ }\n\t\t\t\tex_r\n\t\t\t}'
            % (pname, cfg['ty'], cfg['ret'], ens, bind, body, ens, cfg['label'])), cfg


def _closure_arg(text, toks, match, mopen):
    """closure that is the only argument inside the call parens at mopen: (param text, body text)"""
    i = mopen + 1
    if toks[i].text != '|':
        raise LostAnchor('expected a closure literal')
    j = i + 1
    while toks[j].text != '|':
        j += 1
    param = text[toks[i].end:toks[j].start].strip()
    body = text[toks[j].end:toks[match[mopen]].start].strip().rstrip(',').strip()
    return param, body


def r_adapters(closures):
    """EX2 + EX3.  closures: {(adapter, 'ident'|'tuple'): dict(ty, ret, ens, label, ghost=[..])}"""
    def rule(u, key, text):
        # (a) iterator chains that end in collect()
        while True:
            toks = tokenize(text)
            match = match_brackets(toks)
            site = None
            for i, t in enumerate(toks):
                if t.text == '.' and _seq(toks, i, ['.', 'iter', '(', ')', '.']) and toks[i + 5].text in ('map', 'filter_map', 'take_while') \
                        and toks[i + 6].text == '(' and toks[i + 7].text == '|':
                    mclose = match[i + 6]
                    last = 'count' if toks[i + 5].text == 'take_while' else 'collect'
                    if _seq(toks, mclose + 1, ['.', last, '(', ')']):
                        site = (i, toks[i + 5].text, i + 6, mclose, last)
                        break
            if site is None:
                break
            i, name, mopen, mclose, last = site
            rs = _postfix_start(toks, match, i)
            recv = text[toks[rs].start:toks[i].start].strip()
            param, body = _closure_arg(text, toks, match, mopen)
            adapter = name + '_' + last
            cl, cfg = _typed_closure(u, key, adapter, param, body, closures)
            ghost = ''.join(', Ghost(%s)' % g for g in cfg.get('ghost', []))
            new = '%s.ex_%s(%s%s)' % (recv, adapter, cl, ghost)
            text = text[:toks[rs].start] + new + text[toks[mclose + 4].end:]
            u.rules['EX3-' + adapter] += 1
        # (a') V.drain(..).filter_map(CL).collect()  (not in the pinned code: moving the declarations out instead of exporting copies)
        while True:
            toks = tokenize(text)
            match = match_brackets(toks)
            site = None
            for i, t in enumerate(toks):
                if t.text == '.' and _seq(toks, i, ['.', 'drain', '(', '.', '.', ')', '.', 'filter_map', '(']) and toks[i + 9].text == '|':
                    mclose = match[i + 8]
                    if _seq(toks, mclose + 1, ['.', 'collect', '(', ')']):
                        site = (i, i + 8, mclose)
                        break
            if site is None:
                break
            i, mopen, mclose = site
            param, body = _closure_arg(text, toks, match, mopen)
            cl, cfg = _typed_closure(u, key, 'drain_filter_map_collect', param, body, closures)
            ghost = ''.join(', Ghost(%s)' % g for g in cfg.get('ghost', []))
            text = text[:toks[i].start] + '.ex_drain_filter_map_collect(%s%s)' % (cl, ghost) + text[toks[mclose + 4].end:]
            u.rules['EX3-drain_filter_map_collect'] += 1
        # (b) method calls with one closure argument
        for name in ('sort_by_key', 'partition_point', 'retain'):
            while True:
                toks = tokenize(text)
                match = match_brackets(toks)
                site = None
                for i, t in enumerate(toks):
                    if t.text == '.' and _seq(toks, i, ['.', name, '(']) and toks[i + 3].text == '|':
                        site = i
                        break
                if site is None:
                    break
                i = site
                mopen = i + 2
                mclose = match[mopen]
                param, body = _closure_arg(text, toks, match, mopen)
                cl, cfg = _typed_closure(u, key, name, param, body, closures)
                ghost = ''.join(', Ghost(%s)' % g for g in cfg.get('ghost', []))
                new = '.ex_%s(%s%s)' % (name, cl, ghost)
                text = text[:toks[i].start] + new + text[toks[mclose].end:]
                u.rules['EX3-' + name] += 1
        # (c) splice as a statement
        n = len(re.findall(r'\.splice\(', text))
        if n:
            if len(re.findall(r'\.splice\([^;]*\);', text)) != n:
                raise LostAnchor('%s: EX3 the value of a splice(..) is used' % key)
            text = re.sub(r'\.splice\(', '.ex_splice(', text)
            u.rules['EX3-splice'] += n
        return text
    return rule


def r_hashset_iteration(u, key, text):
    """EX4"""
    n = 0
    for m in re.finditer(r'let\s+(?:mut\s+)?(\w+)(?:\s*:\s*[^=;]+)?\s*=\s*(HashSet|Vec)\s*::\s*new\s*\(\s*\)\s*;', text):
        name, kind = m.group(1), m.group(2)
        pat = re.compile(r'([ \t]*)(\bfor\s+[^{};]*?\bin\s+)%s(\s*\{)' % re.escape(name))
        while True:
            mm = pat.search(text)
            if not mm:
                break
            var = 'ex_order%s' % (n or '')
            init = '%s.ex_into_vec()' % name if kind == 'HashSet' else name
            text = text[:mm.start()] + '%slet %s = %s;\n%s%s%s%s' % (mm.group(1), var, init, mm.group(1), mm.group(2), var, mm.group(3)) + text[mm.end():]
            u.rules['EX4-hashset-into-iter' if kind == 'HashSet' else 'EX4-vec-named'] += 1
            n += 1
    return text


def r_to_string(u, key, text):
    """EX5"""
    n = len(re.findall(r'\.to_string\(\)', text))
    if n:
        u.rules['EX5-to-string'] += n
        text = text.replace('.to_string()', '.ex_to_string()')
    return text


def r_explicit_deref(fn_name, arg_index, method):
    """EX6"""
    def rule(u, key, text):
        out = text
        while True:
            toks = tokenize(out)
            match = match_brackets(toks)
            site = None
            for i, t in enumerate(toks):
                if t.kind == 'id' and t.text == fn_name and i + 1 < len(toks) and toks[i + 1].text == '(' \
                        and (i == 0 or toks[i - 1].text not in ('fn', '.')):
                    # split arguments at top-level commas
                    args = []
                    k = i + 2
                    a0 = k
                    close = match[i + 1]
                    while k < close:
                        if toks[k].text in ('(', '[', '{'):
                            k = match[k]
                        elif toks[k].text == ',':
                            args.append((a0, k))
                            a0 = k + 1
                        k += 1
                    if a0 < close:
                        args.append((a0, close))
                    if arg_index >= len(args):
                        raise LostAnchor('%s: EX6 call of %s has %d arguments' % (key, fn_name, len(args)))
                    s, e = args[arg_index]
                    arg = out[toks[s].start:toks[e - 1].end]
                    if arg.endswith('.%s()' % method):
                        continue
                    site = (toks[s].start, toks[e - 1].end, arg)
                    break
            if site is None:
                return out
            s, e, arg = site
            recv = arg if re.match(r'^[\w.]+$', arg) else '(%s)' % arg
            out = out[:s] + '%s.%s()' % (recv, method) + out[e:]
            u.rules['EX6-explicit-deref'] += 1
    return rule


def r_expand_one(u, key, text):
    """EX7 (expand_one only)
       S.parse().unwrap_or_default()   ->  ex_parse_path_or_default(S)      trusted wrapper around the same two calls, the parsed
                                           type instantiated with the PathBuf that rustc infers at this site
       let [PAT] = ARR;                ->  let PAT = ex_array1_into_inner(ARR);   trusted wrapper whose body is `let [x] = a; x`
                                           (array patterns are outside the Verus dialect)"""
    n = 0
    def f(m):
        nonlocal n
        n += 1
        return 'ex_parse_path_or_default(%s)' % m.group(1)
    text2 = re.sub(r'\b([\w.]+)\s*\.\s*parse\(\)\s*\.\s*unwrap_or_default\(\)', f, text)
    if n:
        u.rules['EX7-parse-or-default'] += n
    k = 0
    def g(m):
        nonlocal k
        k += 1
        return 'let %s = ex_array1_into_inner(%s);' % (m.group(1).strip(), m.group(2).strip())
    text3 = re.sub(r'\blet\s*\[\s*([^\[\]=;]+?)\s*\]\s*=\s*([\w.]+)\s*;', g, text2)
    if k:
        u.rules['EX7-array1-pattern'] += k
    return text3
