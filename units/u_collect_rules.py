"""Rewrite rules used only by unit U-COLLECT (DESIGN.md 2.3 conventions; numbered locally).  Every rule is local and syntactic,
counts itself in `unit.rules`; a rule that is asked for (`need=True`) and does not find its pattern raises LostAnchor (exit 2).

COL1  the map + fold of `impl Resolvable for Vec<T>`:
        RECV.into_iter().map(|P| M).fold(INIT, |A, X| BODY)        (tail expression of the fn)   ->
        { let mut col_acc: RET = INIT; for P in RECV { let X = { M }; let A = col_acc; col_acc = BODY; } col_acc }
      RET is the function's declared return type (the fold is the tail expression, so that IS the accumulator's type; rustc
      rejects a wrong annotation).  Iterator::map is lazy and Iterator::fold "applies the closure to each element with the
      accumulator, in order": element k is mapped right before fold step k - the loop does exactly that, with the two closure
      bodies M and BODY kept verbatim (BODY's `match` arms are what the contract is about).  Closures whose parameters are
      plain identifiers only.
COL2  RECV.map(|P| M).transpose()   ->   match RECV { Some(P) => match { M } { Ok(col_v) => Ok(Some(col_v)), Err(col_e) => Err(col_e) }, None => Ok(None) }
      (definitions of Option::map and Option::<Result<T, E>>::transpose: "None -> Ok(None), Some(Ok(x)) -> Ok(Some(x)),
      Some(Err(e)) -> Err(e)")
COL3  X.into()   ->   TARGET::from(X)     for the TARGET type the unit names (std: `impl<T, U: From<T>> Into<U> for T { fn into(self)
      -> U { U::from(self) } }`; rustc rejects a wrong TARGET).  Wanted because vstd specifies `into` only through a value-level
      `from_spec`, which cannot be written for a type that holds a Vec; the direct call is judged by the sliced `from`'s contract.
"""
import re
from vlib.rsparse import LostAnchor, tokenize, match_brackets, fn_signature_split
from vlib.rules import _seq, _as_block
from units.u_keyoff_rules import _postfix_start


def _two_params(text, toks, match, mopen):
    """closure `|a, b| BODY` that is the LAST argument inside the call parens at mopen; returns (first args text, a, b, body)"""
    close = match[mopen]
    k = mopen + 1
    bar = None
    while k < close:
        if toks[k].text in ('(', '[', '{'):
            k = match[k]
        elif toks[k].text == '|':
            bar = k
            break
        k += 1
    if bar is None:
        raise LostAnchor('fold without closure literal')
    j = bar + 1
    while toks[j].text != '|':
        j += 1
    params = [p.strip() for p in text[toks[bar].end:toks[j].start].split(',')]
    if len(params) != 2 or not all(re.match(r'^\w+$', p) for p in params):
        raise LostAnchor('fold closure parameters are not two identifiers')
    init = text[toks[mopen].end:toks[bar].start].strip().rstrip(',').strip()
    body = text[toks[j].end:toks[close].start].strip().rstrip(',').strip()
    return init, params[0], params[1], body


def r_map_fold(need=True):
    """COL1"""
    def rule(u, key, text):
        toks = tokenize(text)
        match = match_brackets(toks)
        site = None
        for i, t in enumerate(toks):
            if t.text == '.' and _seq(toks, i, ['.', 'into_iter', '(', ')', '.', 'map', '(']) and toks[i + 7].text == '|':
                mclose = match[i + 6]
                if _seq(toks, mclose + 1, ['.', 'fold', '(']):
                    site = (i, i + 6, mclose, mclose + 3)
                    break
        if site is None:
            if need:
                raise LostAnchor('%s: rule COL1 found no `.into_iter().map(|..| ..).fold(..)`' % key)
            return text
        i, mopen, mclose, fopen = site
        fclose = match[fopen]
        # the fold must be the tail expression of the function body
        if not (fclose + 1 < len(toks) and toks[fclose + 1].text == '}' and fclose + 2 == len(toks)):
            raise LostAnchor('%s: COL1 the fold is not the tail expression of the function' % key)
        rs = _postfix_start(toks, match, i)
        recv = text[toks[rs].start:toks[i].start].strip()
        j = mopen + 2
        while toks[j].text != '|':
            j += 1
        p = text[toks[mopen + 1].end:toks[j].start].strip()
        if not re.match(r'^\w+$', p):
            raise LostAnchor('%s: COL1 map closure parameter is not an identifier' % key)
        m_body = text[toks[j].end:toks[mclose].start].strip().rstrip(',').strip()
        init, a, x, f_body = _two_params(text, toks, match, fopen)
        _h, ret, _w, _b = fn_signature_split(text)
        if ret is None:
            raise LostAnchor('%s: COL1 function without return type' % key)
        new = ('{\n\t\t\tlet mut col_acc: %s = %s;\n\t\t\tfor %s in %s\n\t\t\t{\n\t\t\t\tlet %s = %s;\n\t\t\t\tlet %s = col_acc;\n\t\t\t\tcol_acc = %s;\n\t\t\t}\n\t\t\tcol_acc\n\t\t}'
               % (ret.strip(), init, p, recv, x, _as_block(m_body), a, f_body))
        u.rules['COL1-map-fold'] += 1
        return text[:toks[rs].start] + new + text[toks[fclose].end:]
    return rule


def r_map_transpose(u, key, text):
    """COL2"""
    while True:
        toks = tokenize(text)
        match = match_brackets(toks)
        site = None
        for i, t in enumerate(toks):
            if t.text == '.' and _seq(toks, i, ['.', 'map', '(']) and toks[i + 3].text == '|':
                mclose = match[i + 2]
                if _seq(toks, mclose + 1, ['.', 'transpose', '(', ')']):
                    site = (i, i + 2, mclose)
                    break
        if site is None:
            return text
        i, mopen, mclose = site
        rs = _postfix_start(toks, match, i)
        recv = text[toks[rs].start:toks[i].start].strip()
        j = mopen + 2
        while toks[j].text != '|':
            j += 1
        p = text[toks[mopen + 1].end:toks[j].start].strip()
        body = text[toks[j].end:toks[mclose].start].strip().rstrip(',').strip()
        new = ('match %s { Some(%s) => match %s { Ok(col_v) => Ok(Some(col_v)), Err(col_e) => Err(col_e) }, None => Ok(None) }'
               % (recv, p, _as_block(body)))
        text = text[:toks[rs].start] + new + text[toks[mclose + 4].end:]
        u.rules['COL2-map-transpose'] += 1


def r_into_from(target):
    """COL3"""
    def rule(u, key, text):
        while True:
            toks = tokenize(text)
            match = match_brackets(toks)
            site = None
            for i, t in enumerate(toks):
                if t.text == '.' and _seq(toks, i, ['.', 'into', '(', ')']):
                    site = i
                    break
            if site is None:
                return text
            i = site
            rs = _postfix_start(toks, match, i)
            recv = text[toks[rs].start:toks[i].start].strip()
            text = text[:toks[rs].start] + '%s::from(%s)' % (target, recv) + text[toks[i + 3].end:]
            u.rules['COL3-into-from'] += 1
    return rule
