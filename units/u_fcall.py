"""U-FCALL: src/alpha/analyzer/function_calls.rs, whole file.
C08  whole arrays, array views and structs cannot be copied (E531-E533) except as the immediate argument of a call
     (flag `is_immediate_function_argument`); missing-address hint E513.
C07  argument/parameter pairs have the identical type, argument count == parameter count (E510-E513): Analyzer::use_function.
The real Expression / Reference / Statement / Declaration types of alpha::common are sliced (the walk matches on all of
them), value_type.rs goes into `mod value_type` with the predicates the file calls under their U-VT contracts, and
`Typed for Expression` (the recorded-type accessor that use_function reads) is sliced from typer.rs."""
from vlib import rules
from units.u_align import emit_types, import_contracts
from units import u_fcall_rules as fcr
F = 'src/alpha/analyzer/function_calls.rs'
C = 'src/alpha/common.rs'
T = 'src/alpha/typer.rs'
E = 'src/alpha/error.rs'

VT_FNS = ['can_coerce_address_into', 'equals', 'is_alias_of', 'can_be_variable', 'is_wellformed', 'is_wellformed_element',
          'is_wellformed_inner', 'can_be_element', 'for_string_literal']


def inject(after_brace_text):
    def f(text):
        i = text.index('{')
        return text[:i + 1] + '\n' + after_brace_text + text[i + 1:]
    return f


def specs(pre, post):
    return inject('\topen spec fn pre(self, a: Analyzer) -> bool { %s }\n'
                  '\topen spec fn post(self, r: Self, a0: Analyzer, a1: Analyzer) -> bool { %s }' % (pre, post))


def build(u):
    u.load_contracts('contracts/u_fcall.vc')
    u.notes += [
        'caller obligations (preconditions, spec fns pre_*): every non-builtin callee has been declared (else unreachable!()), no builtin is IncludeBytes (todo!()), '
        'no call argument is an automatic coercion of a poisoned expression and no index expression is an automatic coercion (Expression::location is unreachable!() on Poison), '
        'named array lengths have been resolved by the typer (no Deref of type ArrayWithNamedLength)',
        'trusted: derived Clone of Parameter/Identifier/Poison/Error/ValueType/Location is the identity; derived PartialEq of ValueType is teq (U-VT); '
        'std specs [T]::to_vec, Result::clone, Box::as_ref, Box ==; vstd HashMap model',
        'contracts of can_hint_missing_address and Identifier::eq carry the clause text of contracts/u_mut.vc, those of the value_type.rs predicates are imported verbatim from contracts/u_vt.vc; all re-verified here',
        'oracle decision: parentheses, automatic coercions and casts are transparent for "immediate argument of a call"; members of a structural literal, '
        'operands, array elements and index expressions are not arguments',
    ]
    emit_types(u, VT_FNS)
    u.include('prelude/fcall_std.rs')
    u.opaque += ['DeclarationFlag', 'EnumSet<T>']
    for it in ['enum BinaryOp', 'enum UnaryOp', 'enum ComparisonOp', 'enum Builtin']:
        u.emit(C, it)
    for it in ['struct Parameter', 'struct Array', 'struct MemberExpression', 'enum Expression', 'enum DesliceOffset', 'enum ReferenceStep',
               'struct Reference', 'struct Comparison', 'enum Declaration', 'struct FunctionBody', 'struct Block', 'enum Statement', 'struct Else']:
        u.emit(C, it, derive_drop=['Clone'])
    u.emit(F, 'struct Analyzer', pub_fields=True)
    u.emit(F, 'struct Function', pub_fields=True)
    u.include('spec/u_fcall_spec.rs', kind='spec')
    u.emit(E, 'impl From<Error> for Poison')
    u.emit(C, 'impl Expression', only=['location'])
    u.emit(T, 'trait Typed')
    u.emit(T, 'impl Typed for Expression')
    u.emit(F, 'impl Analyzer', rules=[fcr.only_for([':: fn use_function'], fcr.fc1_for_zip())])
    u.emit(F, 'fn can_hint_missing_address')
    u.emit(F, 'fn analyze_builtin')
    u.emit(F, 'fn declare')
    R = [rules.r1_r2_map_collect(min_count=0),
         rules.r3_option_map_if_present(['value', 'else_branch']), fcr.fc2_field_option_map('self.return_value')]
    u.emit(F, 'trait Analyzable', pre=inject(
        '\tspec fn pre(self, a: Analyzer) -> bool;\n\tspec fn post(self, r: Self, a0: Analyzer, a1: Analyzer) -> bool;'))
    u.emit(F, 'impl Analyzable for Declaration', rules=R, pre=specs('pre_d(self, a.functions@)', 'ok_d(r, self, a0.functions@) && !a1.is_immediate_function_argument'))
    u.emit(F, 'impl Analyzable for FunctionBody', rules=R, pre=specs('pre_f(self, a.functions@)', 'ok_f(r, self, a0.functions@) && !a1.is_immediate_function_argument'))
    u.emit(F, 'impl Analyzable for Block', rules=R, pre=specs('pre_b(self, a.functions@)', 'ok_b(r, self, a0.functions@) && !a1.is_immediate_function_argument'))
    u.emit(F, 'impl Analyzable for Statement', rules=R, pre=specs('pre_s(self, a.functions@)', 'ok_s(r, self, a0.functions@) && !a1.is_immediate_function_argument'))
    u.emit(F, 'impl Analyzable for Comparison', rules=R, pre=specs('pre_c(self, a.functions@)', 'ok_c(r, self, a0.functions@) && !a1.is_immediate_function_argument'))
    u.emit(F, 'impl Analyzable for Array', rules=R, pre=specs('pre_a(self, a.functions@)', 'ok_a(r, self, a0.functions@) && !a1.is_immediate_function_argument'))
    u.emit(F, 'impl Analyzable for Expression', rules=R, pre=specs(
        'pre_e(self, a.functions@)',
        'ok_e(r, self, a0.is_immediate_function_argument, a0.functions@) && a1.is_immediate_function_argument == xf_e(self, a0.is_immediate_function_argument)'))
    u.emit(F, 'impl Analyzable for ReferenceStep', rules=R, pre=specs(
        'pre_step(self, a.functions@)',
        'ok_step(r, self, a0.functions@) && a1.is_immediate_function_argument == xf_step(self, a0.is_immediate_function_argument)'))
    u.emit(F, 'impl Analyzable for Reference', rules=R, pre=specs(
        'pre_r(self, a.functions@)',
        'ok_r(r, self, a0.functions@) && a1.is_immediate_function_argument == xf_r(self, a0.is_immediate_function_argument)'))
    u.emit(F, 'fn analyze')
