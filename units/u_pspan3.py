"""U-PSPAN3 (C13) - third sister unit of U-PSPAN: parse_statement of src/alpha/parser.rs VERIFIED under the uniform span contract
(contracts/u_pspan.vc, spec/u_pspan_spec.rs); every other parse function external with the contract text that U-PSPAN / U-PSPAN2 prove.
The one Tokens::with_reservation site is rewritten by rule PS2 (units/u_pspan_rules.py: the Drop of the guard made explicit)."""
from units import u_pspan
RLIMIT = 40


def build(u):
    u_pspan.build_with(u, ('parse_statement',))
