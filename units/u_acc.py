"""U-ACC (C13: compilation is a function of its inputs - the same list of diagnostics, in the same order, on every run).
How the diagnostics of many declarations / files become the ONE list a user sees:
  src/alpha/resolver.rs   combine, accumulate            (merge two results; two failing results -> combined_with + sorted)
  src/alpha/error.rs      struct Errors, From<Error> for Errors, Errors::{codes, combined_with, sorted}
  src/alpha/lexer.rs      struct Location, Location::comparison_key      (the (file, line, column) key `sorted` compares)
The ORDER CONTRACT: whenever both sides failed, the reported list is the concatenation of both lists, ordered by primary
location, ties in production order - so it does not depend on the (hash-table, feature-dependent) order in which
declarations were visited.  Dropping `.sorted()`, sorting by another key, merging in the other direction or losing one of
the two lists each fails a named clause.
Opaque: error::Error (its code and its primary location are uninterpreted functions of the error: the 150-line
`Error::location` table is not what this unit is about), resolved::Declaration.  The std sort sits behind a trusted wrapper
whose preconditions (the comparator decides a total preorder) are PROVED against the real comparator closure."""
from vlib import rules
from vlib.rsparse import tokenize, match_brackets, LostAnchor

R = 'src/alpha/resolver.rs'
E = 'src/alpha/error.rs'
L = 'src/alpha/lexer.rs'


def acc1_sort_by(ghost_le):
    """ACC1: RECV.sort_by(CMP)  ->  vec_sort_by(&mut RECV, CMP, Ghost(LE))
    vec_sort_by (prelude/acc_sort.rs) is a trusted wrapper around the same std call `<[T]>::sort_by`; LE is the ghost
    preorder that CMP must decide (a precondition of the wrapper, proved at the call site from CMP's closure contract).
    Applied wherever the pattern occurs (0 sites is fine: a `sorted` that no longer sorts is judged by its postconditions)."""
    def rule(u, key, text):
        while True:
            toks = tokenize(text)
            match = match_brackets(toks)
            site = None
            for i, t in enumerate(toks):
                if t.text == '.' and rules._seq(toks, i, ['.', 'sort_by', '(']):
                    site = i
                    break
            if site is None:
                return text
            i = site
            rs = rules._postfix_start(toks, match, i)
            recv = text[toks[rs].start:toks[i].start].strip()
            mopen = i + 2
            mclose = match[mopen]
            arg = text[toks[mopen].end:toks[mclose].start].rstrip().rstrip(',')
            new = 'vec_sort_by(&mut %s, %s, Ghost(%s))' % (recv, arg, ghost_le)
            text = text[:toks[rs].start] + new + text[toks[mclose].end:]
            u.rules['ACC1'] += 1
    return rule


def acc2_iter_map_collect(u, key, text):
    """ACC2 (the by-reference sibling of R1): RECV.iter().map(|p| BODY).collect()  ->
        { let mut acc<n>_out = Vec::new(); for p in RECV.iter() { let acc<n>_item = { BODY }; acc<n>_out.push(acc<n>_item); } acc<n>_out }
    i.e. the definition of map + collect into a Vec over a slice iterator (elements visited front to back, one push each).
    Applied wherever the pattern occurs."""
    n = 0
    while True:
        toks = tokenize(text)
        match = match_brackets(toks)
        site = None
        for i, t in enumerate(toks):
            if t.text == '.' and rules._seq(toks, i, ['.', 'iter', '(', ')', '.', 'map', '(']) and toks[i + 7].text == '|':
                mclose = match[i + 6]
                if rules._seq(toks, mclose + 1, ['.', 'collect', '(', ')']):
                    site = (i, i + 6, mclose)
                    break
        if site is None:
            return text
        i, mopen, mclose = site
        rs = rules._receiver_start(toks, i)
        recv = ''.join(text[toks[rs].start:toks[i].start].split())
        param, body = rules._closure(text, toks, match, mopen)
        if not param.isidentifier():
            raise LostAnchor('%s: rule ACC2 wants a plain closure parameter, found %r' % (key, param))
        n += 1
        tag = 'acc%d' % n
        new = ('{\n\t\t\tlet mut %s_out = Vec::new();\n' % tag
               + '\t\t\tfor %s in %s.iter()\n\t\t\t{\n' % (param, recv)
               + '\t\t\t\tlet %s_item = %s;\n' % (tag, rules._as_block(body))
               + '\t\t\t\t%s_out.push(%s_item);\n\t\t\t}\n\t\t\t%s_out\n\t\t}' % (tag, tag, tag))
        text = text[:toks[rs].start] + new + text[toks[mclose + 4].end:]
        u.rules['ACC2'] += 1


def build(u):
    u.load_contracts('contracts/u_acc.vc')
    u.include('prelude/acc_sort.rs')
    u.include('prelude/acc_opaque.rs')
    u.opaque += ['Error (code and primary location uninterpreted)', 'resolved::Declaration']
    u.notes += [
        'trusted: vec_sort_by = std `<[T]>::sort_by` with its documented contract (stable; a rearrangement of the input; ordered by the '
        'comparator) under the PROVED precondition that the comparator closure decides the total preorder by_location()',
        'trusted: `impl Ord for str` is a total order on string values (axiom_str_ord; vstd has OrdSpec for tuples/usize/& but not for str)',
        'trusted stand-ins: Error::code / Error::location are functions of the error (err_code / err_loc uninterpreted)',
        'Location: derived Clone/PartialEq/Debug not needed by comparison_key and dropped; Errors: derived Debug dropped',
        'the tuple comparison `(file, line, column).cmp(..)` of the real closure is checked against key_cmp through vstd\'s own '
        'lexicographic OrdSpec of tuples: a comparator that compares other fields, or in another order, fails '
        'C13.acc.sort_compares_primary_location_keys',
    ]
    u.emit(L, 'struct Location', derive_drop=['Clone', 'PartialEq'])
    u.emit(E, 'struct Errors')
    u.include('spec/u_acc_spec.rs', kind='spec')
    u.emit(L, 'impl Location', only=['comparison_key'])
    u.emit(E, 'impl From<Error> for Errors')
    u.emit(E, 'impl Errors', only=['codes', 'combined_with', 'sorted'],
           rules=[acc2_iter_map_collect, acc1_sort_by('by_location()')])
    u.emit(R, 'fn combine')
    u.emit(R, 'fn accumulate')
