"""U-RES: src/alpha/resolver.rs, operator type classes and cast legality (C07, second half).

Under contract: the eight VALID_TYPES_FOR_* tables (R15), BinaryOp/UnaryOp/ComparisonOp::valid_types,
analyze_operand_type (R14), is_valid_primitive_conversion, is_valid_bit_cast, match_type_of_operands and the three
resolve_*_op_type drivers, plus what they call: the ValueType predicates of value_type.rs, the hand-written
Identifier `==` of common.rs and the From impls of error.rs.  Opaque: Location, lexer::Error, resolved::ValueType,
Expression (its recorded type and location are uninterpreted), ValueType::resolve."""
from units import u_res_rules as RR

VT = 'src/alpha/value_type.rs'
C = 'src/alpha/common.rs'
E = 'src/alpha/error.rs'
R = 'src/alpha/resolver.rs'
T = 'src/alpha/typer.rs'
IMPL = 'impl<I> ValueType<I> where I: Identifier'
TABLES = ['VALID_TYPES_FOR_EQUALITY', 'VALID_TYPES_FOR_IS_GREATER', 'VALID_TYPES_FOR_ARITHMETIC', 'VALID_TYPES_FOR_BITWISE',
          'VALID_TYPES_FOR_BITSHIFT', 'VALID_TYPES_FOR_POINTER', 'VALID_TYPES_FOR_NEGATIVE', 'VALID_TYPES_FOR_COMPLEMENT']
VT_FNS = ['is_integral', 'is_signed', 'is_bitfield', 'known_size_in_bytes_as_word_member',
          'is_wellformed', 'is_wellformed_element', 'is_wellformed_inner', 'can_be_element']


def build(u):
    u.features.append('allocator_api')
    u.include('prelude/std_box_option.rs')
    u.load_contracts('contracts/u_res.vc')
    u.opaque += ['Location', 'lexer::Error', 'resolved::ValueType', 'Expression']

    # ---- value_type.rs lives in its own module: its trait `Identifier` and the struct `common::Identifier` share a name
    u.raw('pub mod value_type {\nuse vstd::prelude::*;\nuse vstd::std_specs::cmp::{PartialEqSpec, PartialEqSpecImpl};')
    u.emit(VT, 'trait Identifier')
    u.emit(VT, 'enum ValueType', derive_drop=['Clone'])
    u.emit(VT, 'enum OperandValueType')
    u.emit(VT, IMPL, only=VT_FNS)
    u.include('spec/u_vt_spec.rs', kind='spec')
    u.raw('} // mod value_type\nuse value_type::*;')

    # ---- common.rs / error.rs: the real identifier, operators, diagnostics
    u.include('prelude/res_opaque.rs')
    u.emit(C, 'struct Identifier')
    u.emit(C, 'impl value_type::Identifier for Identifier')
    u.emit(C, 'impl PartialEq for Identifier')
    u.emit(C, 'type ValueType')
    u.emit(E, 'type OperandValueType')
    u.emit(E, 'type Poisonable')
    u.emit(C, 'enum BinaryOp')
    u.emit(C, 'enum UnaryOp')
    u.emit(C, 'enum ComparisonOp')
    u.emit(E, 'enum Poison', derive_drop=['Clone'])
    u.emit(E, 'enum Error', derive_drop=['Clone'])
    u.emit(E, 'struct Errors')
    u.emit(E, 'impl From<Error> for Errors')
    u.emit(E, 'impl From<Poison> for Errors')
    u.emit(E, 'impl<T1, T2> From<(T1, T2)> for Errors where T1: Into<Errors>, T2: Into<Errors>')
    u.emit(T, 'trait Typed')
    u.emit(R, 'trait Resolvable')
    u.include('prelude/res_callees.rs')
    u.include('prelude/slice_any.rs')
    u.include('spec/u_res_spec.rs', kind='spec')

    # ---- resolver.rs
    for t in TABLES:
        u.emit(R, 'const ' + t, pre=RR.r15_const_table(u), widen=False)
    u.emit(R, 'impl BinaryOp')
    u.emit(R, 'impl UnaryOp')
    u.emit(R, 'impl ComparisonOp')
    R14 = RR.r14_iter_any('OperandValueType', 'b == entry_matches(*valid_type, value_type)', label='C07.res.table_entry_match', written_for='valid_type')
    u.emit(R, 'fn analyze_operand_type', rules=[R14, RR.r_assert_message, RR.r_err_question])
    RS = [RR.r_assert_message, RR.r_err_question]
    u.emit(R, 'fn get_type_of_operand', rules=RS)
    u.emit(R, 'fn match_type_of_operands', rules=RS)
    u.emit(R, 'fn resolve_unary_op_type', rules=RS)
    u.emit(R, 'fn resolve_binary_op_type', rules=RS)
    u.emit(R, 'fn resolve_compared_type', rules=RS)
    u.emit(R, 'fn analyze_bit_cast_and_get_coerced_type', rules=RS)
    u.emit(R, 'fn is_valid_bit_cast')
    u.emit(R, 'fn is_valid_primitive_conversion')
