"""U-VT: src/alpha/value_type.rs, whole file (C07 coercion relations, C11 legality predicates, C09 ranges)."""
F = 'src/alpha/value_type.rs'
IMPL = 'impl<I> ValueType<I> where I: Identifier'


def build(u):
    u.features.append('allocator_api')
    u.include('prelude/std_box_option.rs')
    u.load_contracts('contracts/u_vt.vc')
    u.emit(F, 'trait Identifier')
    u.emit(F, 'impl Identifier for String')
    u.emit(F, "impl Identifier for &'static str")
    u.emit(F, 'const MAXIMUM_ALIGNMENT')
    # derived Clone on a recursive type: Verus reports a spurious cycle -> trusted identity clone (DESIGN 2.2 item 1)
    u.emit(F, 'enum ValueType', derive_drop=['Clone'])
    u.emit(F, 'enum OperandValueType', derive_drop=['Clone'])
    u.emit(F, IMPL)
    u.include('spec/u_vt_spec.rs', kind='spec')
