"""U-VT: src/alpha/value_type.rs, whole file (C07 coercion relations, C11 legality predicates, C09 ranges)."""
F = 'src/alpha/value_type.rs'
IMPL = 'impl<I> ValueType<I> where I: Identifier'


def r25_deref_box_eq(u, key, text):
    """R25: `a == b` on two pattern-bound `&Box<Self>` (only in can_be_declared_as) -> `**a == **b`.  By the std impls
    `&A == &B` is `*A == *B` and `Box<T> == Box<T>` is `*T == *T`; Verus constrains the derived `==` of the pointee but gives
    an unconstrained result for `==` on references to boxes in `let`/arm position (tool gap, reproduced in isolation)."""
    if not key.endswith(':: fn can_be_declared_as'):
        return text
    import re
    n = len(re.findall(r'=> a == b,', text))
    if n:
        u.rules['R25'] += n
        text = text.replace('=> a == b,', '=> **a == **b,')
    return text


def build(u):
    u.features.append('allocator_api')
    u.include('prelude/std_box_option.rs')
    u.load_contracts('contracts/u_vt.vc')
    u.emit(F, 'trait Identifier')
    u.emit(F, 'impl Identifier for String')
    u.emit(F, "impl Identifier for &'static str")
    u.emit(F, 'const MAXIMUM_ALIGNMENT')
    # derived Clone on a recursive type: Verus reports a spurious cycle -> trusted identity clone (DESIGN 2.2 item 1)
    u.emit(F, 'enum ValueType', derive_drop=['Clone'])
    u.emit(F, 'enum OperandValueType', derive_drop=['Clone'])
    u.emit(F, IMPL, rules=[r25_deref_box_eq])
    u.include('spec/u_vt_spec.rs', kind='spec')
