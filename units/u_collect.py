"""U-COLLECT (C06, also leaned on by C04 / C05: "a Poison::Error(..) that an earlier stage placed in the tree surfaces as a
rejection with its code") - the ERROR COLLECTION of the resolver.
  src/alpha/resolver.rs   trait Resolvable and its GENERIC impls (Vec<T>, (T1,T2), (T1,T2,T3), (T1,T2,T3,T4), Option<T>, Box<T>,
                          Poisonable<T>), check_surface_level_errors, resolve
  src/alpha/error.rs      struct Errors, From<Error> for Errors, From<Poison> for Errors, Errors::combined_with,
                          enum Poison, enum Error;   src/alpha/common.rs  enum Declaration, enum DeclarationFlag
The contract is stated ONCE at trait level: three spec functions are injected into `trait Resolvable` (errs / poisoned /
resolves_to, see spec/u_collect_spec.rs) and the trait method `resolve` carries the `ensures`; every generic impl gets the
DEFINITION of the three functions in terms of its parts (IMPL_SPECS below) and is proved against the trait contract, plus
impl-level clauses that restate it with the parts spelled out (so that a failure names the shape that lost an error).
`From<Error> for Errors::from` and `Errors::combined_with` carry their U-ACC contracts (contracts/u_acc.vc, imported verbatim,
re-verified here).  The NODE impls (Declaration, Statement, Expression, ...) are not in the unit; the one for Declaration,
which `pub fn resolve` delegates to, is a declared stand-in that is ASSUMED to meet the trait contract
(prelude/collect_nodes.rs)."""
from vlib import rules
from units.u_align import import_contracts
from units.u_expand_rules import r_adapters
from units.u_collect_rules import r_map_fold, r_map_transpose, r_into_from

R = 'src/alpha/resolver.rs'
E = 'src/alpha/error.rs'
C = 'src/alpha/common.rs'


def inject(after_brace_text):
    def f(text):
        i = text.index('{')
        return text[:i + 1] + '\n' + after_brace_text + text[i + 1:]
    return f


TRAIT_SPECS = ('\tspec fn errs(self) -> Seq<Error>;\n'
               '\tspec fn poisoned(self) -> bool;\n'
               '\tspec fn resolves_to(self, x: Self::Item) -> bool;')


def defs(errs, poisoned, resolves_to):
    return inject('\topen spec fn errs(self) -> Seq<Error> { %s }\n'
                  '\topen spec fn poisoned(self) -> bool { %s }\n'
                  '\topen spec fn resolves_to(self, x: Self::Item) -> bool { %s }' % (errs, poisoned, resolves_to))


def tuple_defs(n):
    f = range(n)
    return defs(' + '.join('self.%d.errs()' % i for i in f), ' || '.join('self.%d.poisoned()' % i for i in f),
                ' && '.join('self.%d.resolves_to(x.%d)' % (i, i) for i in f))


W = lambda names: ' where ' + ', '.join('%s: Resolvable' % n for n in names)
IMPLS = [
    ('impl<T> Resolvable for Vec<T>' + W(['T']),
     defs('list_errs(self@)', 'list_poisoned(self@)', 'list_resolves_to(self@, x@)'), [r_map_fold(need=False)]),
    ('impl<T1, T2> Resolvable for (T1, T2)' + W(['T1', 'T2']), tuple_defs(2), []),
    ('impl<T1, T2, T3> Resolvable for (T1, T2, T3)' + W(['T1', 'T2', 'T3']), tuple_defs(3), []),
    ('impl<T1, T2, T3, T4> Resolvable for (T1, T2, T3, T4)' + W(['T1', 'T2', 'T3', 'T4']), tuple_defs(4), []),
    ('impl<T> Resolvable for Option<T>' + W(['T']),
     defs('match self { Some(v) => v.errs(), None => Seq::empty() }', 'match self { Some(v) => v.poisoned(), None => false }',
          'match self { Some(v) => x is Some && v.resolves_to(x->Some_0), None => x is None }'), [r_map_transpose]),
    ('impl<T> Resolvable for Box<T>' + W(['T']),
     defs('(*self).errs()', '(*self).poisoned()', '(*self).resolves_to(*x)'), []),
    ('impl<T> Resolvable for Poisonable<T>' + W(['T']),
     defs('match self { Ok(v) => v.errs(), Err(p) => poison_errs(p) }', 'match self { Ok(v) => v.poisoned(), Err(p) => p is Poisoned }',
          'match self { Ok(v) => v.resolves_to(x), Err(p) => false }'), [r_into_from('Errors')]),
]

# EX2 (units/u_expand_rules.py): typed head + ghost contract of the closure of check_surface_level_errors
CLOSURES = {
    ('filter_map_collect', 'ident'): dict(ty='&Declaration', ret='Option<Error>',
                                          ens='(ex_r is Some <==> is_surface_error(*$P)) && (ex_r is Some ==> is_error_of(*$P, ex_r->Some_0))',
                                          ghost=['surface_error()', 'error_of()'],
                                          label='C06.collect.surface_error_is_the_error_of_a_poison_declaration'),
}


def build(u):
    u.load_contracts('contracts/u_collect.vc')
    import_contracts(u, 'contracts/u_acc.vc', ['impl From<Error> for Errors :: fn from', 'impl Errors :: fn combined_with'])
    u.include('prelude/expand_types.rs')
    u.include('prelude/expand_slice.rs')
    u.include('prelude/collect_nodes.rs')
    u.opaque += ['EnumSet<T>', 'Location', 'Identifier', 'Expression', 'ValueType', 'OperandValueType', 'Parameter', 'Member', 'FunctionBody',
                 'lexer::Error', 'resolved::Declaration', 'impl Resolvable for Declaration (stand-in: assumed to meet the trait contract)']
    u.notes += [
        'trait-level contract: spec fns errs / poisoned / resolves_to injected into `trait Resolvable`; ensures on the trait method; every generic impl proved against it',
        'FINDING: Err(Poison::Poisoned).resolve() == Err(Errors { errors: [] }) - resolve can fail with an EMPTY error list (error.rs From<Poison> for Errors); '
        'the contract states it (poisoned()) instead of hiding it',
        'assumed: the node impl `Resolvable for Declaration` meets the trait contract (prelude/collect_nodes.rs); derived Clone of Error is the identity; '
        'prelude/expand_types.rs (opaque field types, EnumSet model)',
        'verified helper: prelude/expand_slice.rs ex_filter_map_collect (iter().filter_map().collect() as a loop)',
        '`From<Error> for Errors::from`, `Errors::combined_with`: U-ACC contracts imported verbatim from contracts/u_acc.vc and re-verified here',
    ]
    u.emit(E, 'type Poisonable')
    u.emit(E, 'enum Poison', derive_drop=['Clone'])
    u.emit(E, 'enum Error', derive_drop=['Clone'])
    u.emit(E, 'struct Errors')
    u.emit(C, 'enum DeclarationFlag')
    u.emit(C, 'enum Declaration', derive_drop=['Clone'])
    u.include('spec/u_collect_spec.rs', kind='spec')
    u.emit(E, 'impl From<Error> for Errors')
    u.emit(E, 'impl From<Poison> for Errors', rules=[r_into_from('Errors')])
    u.emit(E, 'impl Errors', only=['combined_with'])
    u.emit(R, 'trait Resolvable', pre=inject(TRAIT_SPECS))
    for header, pre, rl in IMPLS:
        u.emit(R, header, rules=rl, pre=pre)
    u.emit(R, 'fn resolve')
    u.emit(R, 'fn check_surface_level_errors', rules=[rules.flatten_paths(['common']), r_adapters(CLOSURES)])
