"""Rewrite rules used only by unit U-TYPARG.  Same conventions as vlib/rules.py: local, syntactic, counted in `unit.rules`;
a missing pattern is simply not rewritten (Verus then rejects the adapter: exit 2, never an alarm)."""
import re
from vlib import rsparse
from vlib.rsparse import LostAnchor, tokenize


def ta1_zip_hints(u, key, text):
    """TA1 (Typer::analyze_hinted_arguments): the parameter `parameter_hints: impl Iterator<Item = Option<Poisonable<ValueType>>>`
    becomes the verified shim `HintIter` (prelude/typarg_hints.rs), and
        arguments.into_iter().zip(parameter_hints).map(|(argument, parameter_hint)| BODY).collect()
    becomes the loop that `zip` + `map` + `collect` run (std: zip "returns None when either iterator returns None", the first
    iterator is advanced first; collect into a Vec keeps the order):
        { let mut parameter_hints = parameter_hints; let mut ta1_in = arguments; ta1_in.reverse(); let mut ta1_out = Vec::new();
          while let Some(argument) = ta1_in.pop() {
              let parameter_hint = match parameter_hints.next() { Some(h) => h, None => break };
              let ta1_item = BODY; ta1_out.push(ta1_item); }
          ta1_out }
    BODY is kept verbatim."""
    if not key.endswith(':: fn analyze_hinted_arguments'):
        return text
    text, n = re.subn(r'parameter_hints:\s*impl\s+Iterator<\s*Item\s*=\s*Option<Poisonable<ValueType>>\s*>', 'parameter_hints: HintIter', text)
    m = re.search(r'arguments\s*\.into_iter\(\)\s*\.zip\(parameter_hints\)\s*\.map\(\|\(argument,\s*parameter_hint\)\|\s*', text)
    if not m or not n:
        return text
    rest = text[m.end():]
    toks = tokenize(rest)
    match = rsparse.match_brackets_lenient(toks)
    if toks[0].text != '{':
        raise LostAnchor('%s: TA1 closure body is not a block' % key)
    close = match[0]
    body = rest[toks[0].start:toks[close].end]
    after = rest[toks[close].end:]
    m2 = re.match(r'\s*\)\s*\.collect\(\)', after)
    if not m2:
        raise LostAnchor('%s: TA1 no .collect() after the closure' % key)
    new = ('{\n\t\t\tlet mut parameter_hints = parameter_hints;\n\t\t\tlet mut ta1_in = arguments;\n\t\t\tta1_in.reverse();\n\t\t\tlet mut ta1_out = Vec::new();\n'
           '\t\t\twhile let Some(argument) = ta1_in.pop()\n\t\t\t{\n'
           '\t\t\t\tlet parameter_hint = match parameter_hints.next() { Some(h) => h, None => break };\n'
           '\t\t\t\tlet ta1_item = %s;\n\t\t\t\tta1_out.push(ta1_item);\n\t\t\t}\n\t\t\tta1_out\n\t\t}' % body)
    u.rules['TA1-zip-hints'] += 1
    return text[:m.start()] + new + after[m2.end():]


def ta2_hint_iterators(u, key, text):
    """TA2: the two iterator expressions that feed analyze_hinted_arguments become constructors of the shim:
        X.into_iter().chain(std::iter::repeat(R)).map(Some)  ->  HintIter::chain_repeat_some(X, R)
        std::iter::repeat(None)                              ->  HintIter::repeat(None)"""
    pat = re.compile(r'(\w+)\s*\.into_iter\(\)\s*\.chain\(std::iter::repeat\(((?:[^()]|\([^()]*\))*)\)\)\s*\.map\(Some\)')
    text, n = pat.subn(lambda m: 'HintIter::chain_repeat_some(%s, %s)' % (m.group(1), m.group(2)), text)
    text, k = re.subn(r'std::iter::repeat\(None\)', 'HintIter::repeat(None)', text)
    if n + k:
        u.rules['TA2-hint-iterators'] += n + k
    return text


def ta3_parameter_types(u, key, text):
    """TA3: `parameters.iter().map(|p| p.value_type.clone()).collect()` -> verified helper ex_map_collect (prelude/expand_slice.rs)
    with the closure body verbatim under the ghost contract `r == p.value_type`."""
    pat = re.compile(r'parameters\.iter\(\)\.map\(\|p\|\s*([^|;]*?)\)\.collect\(\)')
    text, n = pat.subn(lambda m: 'parameters.ex_map_collect(|p: &Parameter| -> (r: Poisonable<ValueType>)\n\t\t\t\tensures r == p.value_type /*@L:C07.typarg.parameter_type_copied*/\n\t\t\t\t{ %s })' % m.group(1).strip(), text)
    if n:
        u.rules['TA3-iter-map-collect'] += n
    return text
