"""U-SYM (C07: no implicit conversions) - the symbol-table core of the typer: unification of recorded types.
  src/alpha/typer.rs   fn do_update_symbol, Typer::{put_symbol, poison_symbol, forward_declare_symbol, get_symbol,
                       get_valid_declaration, retrieve_named_length, get_type_of_base, resolve_named_length}
  src/alpha/common.rs  Identifier::inferred (get_type_of_base looks the base up as a non-authoritative mention)
  src/alpha/error.rs   From<Error> for Poison (retrieve_named_length)
Every site of the typer that mentions a variable `put`s the type it sees under the variable's resolution id; the table keeps
the recorded type, replaces it by a more informative form of THE SAME type, or answers E500 ConflictingTypes.  The oracle
(spec/u_sym_spec.rs) phrases "the same type at another level of knowledge" with the U-VT relations teq / concretizes /
declared_as / coercion; the ten value_type.rs predicates the code calls are re-verified here under their U-VT contracts
(imported verbatim from contracts/u_vt.vc), so the composition typer -> value_type.rs is one Verus run.
std::collections::HashMap through vstd's model as in U-ALIGN / U-MUT; HashMap::get_mut (not specified by vstd) under an
assumed spec written with vstd's borrowed-key vocabulary (prelude/sym_std.rs), its frame lemma proved in the spec file.
Type slicing shared with U-ALIGN (`emit_types`)."""
from units.u_align import emit_types, VT_IMPL
from units.u_vt import r25_deref_box_eq
from units.u_extern_rules import r_assert_message

C = 'src/alpha/common.rs'
E = 'src/alpha/error.rs'
T = 'src/alpha/typer.rs'

# what do_update_symbol calls in value_type.rs, closed under calls
VT_FNS = ['is_wellformed', 'is_wellformed_element', 'is_wellformed_inner', 'can_be_element',
          'can_be_concretization_of', 'is_like', 'can_be_declared_as', 'can_coerce_into', 'equals', 'is_alias_of']

TYPER_FNS = ['resolve_named_length', 'put_symbol', 'poison_symbol', 'forward_declare_symbol', 'get_symbol',
             'get_valid_declaration', 'retrieve_named_length', 'get_type_of_base']


def build(u):
    u.load_contracts('contracts/u_sym.vc')
    u.notes += [
        'caller obligations (preconditions): the type put and the type recorded are well formed (the two assert!s at the head of do_update_symbol; '
        'established by the parser and fix_type_for_flags, callers not under contract); retrieve_named_length is only asked about an identifier that '
        'names a declared constant (else unreachable!())',
        'trusted: HashMap::get_mut spec (prelude/sym_std.rs, std documentation; vstd has none), Result::clone spec, vstd HashMap / Option / Result / String::clone specs, '
        'derived Clone of Location/Identifier/Poison/Error/ValueType is the identity, derived PartialEq of ValueType is teq (U-VT)',
        'opaque: Location, lexer::Error (only moved or cloned)',
        'the contracts of the value_type.rs predicates are imported verbatim from contracts/u_vt.vc and re-verified here (can_be_declared_as through rule R25 as in U-VT)',
        'not in this unit: the callers of put_symbol (Declaration/Statement/Expression::analyze of typer.rs), get_type_of_reference (iterator adapters over '
        'reference steps, analyze_member_access) and the insertion of Autocoerce nodes stay outside contracts',
    ]
    # emit_types slices `impl ValueType` without rules; can_be_declared_as needs R25 (see units/u_vt.py) - same emission, one rule added
    plain_emit = u.emit

    def emit_with_r25(rel, spec, **kw):
        if spec == VT_IMPL:
            kw['rules'] = list(kw.get('rules', ())) + [r25_deref_box_eq]
        return plain_emit(rel, spec, **kw)
    u.emit = emit_with_r25
    try:
        emit_types(u, VT_FNS)
    finally:
        del u.emit
    u.include('prelude/sym_std.rs')
    u.emit(T, 'struct Typer', pub_fields=True)
    u.emit(T, 'struct Symbol', pub_fields=True)
    u.emit(T, 'struct Function', pub_fields=True)
    u.emit(T, 'struct Structure', pub_fields=True)
    u.include('spec/u_sym_spec.rs', kind='spec')
    u.emit(E, 'impl From<Error> for Poison')
    u.emit(C, 'impl Identifier', only=['inferred'])
    u.emit(T, 'fn do_update_symbol', rules=[r_assert_message])
    u.emit(T, 'impl Typer', only=TYPER_FNS)
