"""U-MUTW (C08: only `var`s and explicitly passed pointers can be mutated; E530) - the mutability TREE WALK.
  src/alpha/analyzer/mutability.rs   analyze, every `impl Analyzable for ..` (Declaration, Member, Parameter, FunctionBody, Block,
                                     Statement, Comparison, Array, Expression, ReferenceStep, Reference)
  re-verified under their U-MUT contracts (imported by key from contracts/u_mut.vc, because the walk calls them):
                                     needs_outer_mutability, Analyzer::{declare_variable, use_variable}, Identifier::eq
The whole alpha AST of common.rs is sliced for real (type slicing shared with U-ALIGN / U-MUT through emit_types);
only Location, lexer::Error, DeclarationFlag and EnumSet are opaque (the walk only moves them)."""
from vlib import rules
from units.u_align import emit_types, import_contracts
from units.u_mutw_rules import r3_option_map_path
C = 'src/alpha/common.rs'
M = 'src/alpha/analyzer/mutability.rs'


def build(u):
    u.load_contracts('contracts/u_mutw.vc')
    import_contracts(u, 'contracts/u_mut.vc', [
        'impl Analyzer :: fn declare_variable', 'impl Analyzer :: fn use_variable', 'fn needs_outer_mutability',
        'impl PartialEq for Identifier :: fn eq'])
    u.notes += [
        'trusted: [T]::reverse spec (rule R1 reverses the moved vector and pops), vstd HashMap / Vec / Option / Result specs, derived Clone of Identifier/Location is the identity',
        'opaque: Location, lexer::Error, DeclarationFlag, EnumSet<T> (only moved)',
        'oracle is relational (ok_*(result, input, table)): a Vec cannot be built in spec code, so "result == oracle" is stated as '
        '"same constructor, same non-recursive fields, children pairwise related, same length and order"; leaves and rejected nodes are stated with ==',
    ]
    emit_types(u, [])
    u.opaque += ['DeclarationFlag', 'EnumSet<T>']
    u.include('prelude/mutw_std.rs')
    u.emit(C, 'enum BinaryOp')
    u.emit(C, 'enum UnaryOp')
    u.emit(C, 'enum ComparisonOp')
    u.emit(C, 'enum Builtin')
    u.emit(C, 'struct Array', derive_drop=['Clone'])
    u.emit(C, 'struct MemberExpression', derive_drop=['Clone'])
    u.emit(C, 'enum Expression', derive_drop=['Clone'])
    u.emit(C, 'enum DesliceOffset', derive_drop=['Clone'])
    u.emit(C, 'enum ReferenceStep', derive_drop=['Clone'])
    u.emit(C, 'struct Reference', derive_drop=['Clone'])
    u.emit(C, 'struct Comparison', derive_drop=['Clone'])
    u.emit(C, 'struct Else', derive_drop=['Clone'])
    u.emit(C, 'enum Statement', derive_drop=['Clone'])
    u.emit(C, 'struct Block', derive_drop=['Clone'])
    u.emit(C, 'struct FunctionBody', derive_drop=['Clone'])
    u.emit(C, 'struct Parameter', derive_drop=['Clone'])
    u.emit(C, 'enum Declaration', derive_drop=['Clone'])
    u.emit(M, 'struct Analyzer', pub_fields=True)
    u.include('spec/u_mut_spec.rs', kind='spec')
    u.include('spec/u_mutw_spec.rs', kind='spec')
    u.emit(M, 'impl Analyzer')
    u.emit(M, 'fn needs_outer_mutability')
    R1 = rules.r1_r2_map_collect(min_count=0)   # a changed tree that no longer maps/collects is judged by the postconditions
    R3 = rules.r3_option_map_if_present
    u.emit(M, 'trait Analyzable')
    u.emit(M, 'impl Analyzable for Declaration', rules=[R1])
    u.emit(M, 'impl Analyzable for Member')
    u.emit(M, 'impl Analyzable for Parameter')
    u.emit(M, 'impl Analyzable for FunctionBody', rules=[R1, r3_option_map_path('self.return_value')])
    u.emit(M, 'impl Analyzable for Block', rules=[R1])
    u.emit(M, 'impl Analyzable for Statement', rules=[R1, R3(['value', 'else_branch'])])
    u.emit(M, 'impl Analyzable for Comparison')
    u.emit(M, 'impl Analyzable for Array', rules=[R1])
    u.emit(M, 'impl Analyzable for Expression', rules=[R1])
    u.emit(M, 'impl Analyzable for ReferenceStep')
    u.emit(M, 'impl Analyzable for Reference', rules=[R1])
    u.emit(M, 'fn analyze')
