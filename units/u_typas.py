"""U-TYPAS (C07: no implicit conversions) - analyze_assignment_steps of src/alpha/typer.rs: the steps of an assignment target with the
automatic steps (Autoderef / Autoview / Autodeslice) made explicit and the excess address depth (the last callee on the assignment
path that U-TYPST leaves uninterpreted: as_steps / as_state)."""
from units.u_align import emit_types, import_contracts
from units import u_typas_rules as tsr

C = 'src/alpha/common.rs'
E = 'src/alpha/error.rs'
P = 'src/alpha/parser.rs'
T = 'src/alpha/typer.rs'

VT_FNS = ['get_element_type', 'pointer_depth', 'add_pointer_depth']


def build(u):
    u.load_contracts('contracts/u_typas.vc')
    import_contracts(u, 'contracts/u_sym.vc', ['impl PartialEq for Identifier :: fn eq', 'impl Typer :: fn get_symbol', 'impl From<Error> for Poison :: fn from'])
    import_contracts(u, 'contracts/u_typst.vc', ['impl ReferenceStep :: fn get_member'])
    u.notes += [
        'caller obligations (as_pre): the walk can go on at every given step - an index step meets an array form, a member step names a member whose type is recorded, a given Autoderef / Autoview meets a '
        'pointer / view (the unreachable!() sites) - and the size regime "pointer depth of the type reached < 2^64"',
        'verified helper usize_to_u8_or (rule TS3: usize -> u8 try_into); rules TS1 (bounded for-loop with break -> while with a counter) and TS2 (into_iter loop -> reverse/pop loop) restate loops, bodies verbatim',
        'trusted: as U-SYM, [T]::reverse spec',
    ]
    emit_types(u, VT_FNS)
    u.opaque += ['DeclarationFlag', 'EnumSet<T>']
    u.include('prelude/sym_std.rs')
    u.include('prelude/typst_opaque.rs')
    for it in ['enum BinaryOp', 'enum UnaryOp', 'enum ComparisonOp', 'enum Builtin']:
        u.emit(C, it)
    for it in ['struct Parameter', 'struct Array', 'struct MemberExpression', 'enum Expression', 'enum DesliceOffset', 'enum ReferenceStep', 'struct Reference',
               'struct Comparison', 'struct Else', 'enum Statement', 'struct Block', 'struct FunctionBody']:
        u.emit(C, it, derive_drop=['Clone'])
    u.emit(P, 'const MAX_ADDRESS_DEPTH')
    u.emit(T, 'struct Typer', pub_fields=True)
    u.emit(T, 'struct Symbol', pub_fields=True)
    u.emit(T, 'struct Function', pub_fields=True)
    u.emit(T, 'struct Structure', pub_fields=True)
    u.include('spec/u_sym_spec.rs', kind='spec')
    u.include('spec/u_typst_spec.rs', kind='spec')
    u.include('prelude/typst_helpers.rs')
    u.include('prelude/typas_helpers.rs')
    u.include('spec/u_typref_spec.rs', kind='spec')
    u.include('spec/u_typas_spec.rs', kind='spec')
    u.include('spec/u_typas_link_spec.rs', kind='spec')
    u.emit(E, 'impl From<Error> for Poison')
    u.emit(C, 'impl ReferenceStep', only=['get_member'])
    u.emit(T, 'impl Typer', only=['get_symbol'])
    u.emit(T, 'fn analyze_assignment_steps', rules=[tsr.ts2_into_iter_loop, tsr.ts1_bounded_for_with_break, tsr.ts3_try_into_u8])
