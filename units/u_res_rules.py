"""Rewrite rules used only by unit U-RES (DESIGN.md 2.3: R14 for `.iter().any`, R15 for const tables, plus two
small dialect rules RES1/RES2, numbered locally because vlib/rules.py keeps growing).  Same conventions as vlib/rules.py: every rule is local and syntactic, counts itself in
`unit.rules`, and raises LostAnchor when a requested pattern is not there (exit 2, never an alarm)."""
import re
from vlib import rsparse
from vlib.rsparse import LostAnchor, tokenize, match_brackets
from vlib.rules import _seq, _receiver_start, _closure, _as_block


def split_top_commas(text):
    """split `a, b(c, d), e,` at top-level commas; returns stripped non-empty parts"""
    toks = tokenize(text)
    parts, depth, last = [], 0, 0
    for t in toks:
        if t.kind == 'p' and t.text in '([{':
            depth += 1
        elif t.kind == 'p' and t.text in ')]}':
            depth -= 1
        elif t.kind == 'p' and t.text == ',' and depth == 0:
            parts.append(text[last:t.start].strip())
            last = t.end
    parts.append(text[last:].strip())
    return [p for p in parts if p]


CONST_TABLE = re.compile(r'^(?P<lead>(?:[ \t]*//[^\n]*\n)*)[ \t]*(?P<vis>pub\s+)?const\s+(?P<name>[A-Z][A-Z0-9_]*)\s*:\s*&\s*\[\s*(?P<ty>[^\]]+?)\s*\]'
                         r'\s*=\s*&\s*\[(?P<elems>.*)\]\s*;\s*$', re.S)


def r15_const_table(u):
    """R15: `const N: &[T] = &[a, b, ..];`  ->  `exec const N: &'static [T] ensures N@ =~= seq![a, b, ..] { &[a, b, ..] }`
    The `ensures` is generated from the very element list that forms the body, so it cannot state anything the table
    does not contain; what the table is *supposed* to contain is a labelled clause of the function that returns it.
    Used as `pre=` of Unit.emit on a const item."""
    def pre(text):
        m = CONST_TABLE.match(text.strip('\n'))
        if not m:
            raise LostAnchor('R15: not a `const NAME: &[T] = &[..];` table: %r' % text[:80])
        elems = split_top_commas(m.group('elems'))
        name, ty = m.group('name'), m.group('ty')
        u.rules['R15'] += 1
        return ('%spub exec const %s: &\'static [%s]\n\tensures %s@ =~= seq![%s],\n{\n\t&[\n%s\t]\n}\n'
                % (m.group('lead'), name, ty, name, ', '.join(elems), ''.join('\t\t%s,\n' % e for e in elems)))
    return pre


def r14_iter_any(elem_type, ensures, label=None, written_for=None):
    """R14: S.iter().any(|x| P)  ->  slice_any(S, |x: &T| -> (b: bool) ensures ENS { let b = { P }; assert(ENS); b })
    slice_any is a verified helper (prelude/slice_any.rs): result == "some element satisfies the closure's ensures".
    ENS (`b == ...`) is the closure's ghost contract, checked by Verus against the real closure body P.  The ghost
    `assert(ENS)` in front of the result makes a body that no longer meets ENS fail as a *named assertion* of the
    enclosing function (the runner does not classify "unable to prove post-condition of closure").  S must be a slice."""
    def rule(u, key, text):
        n = 0
        while True:
            toks = tokenize(text)
            match = match_brackets(toks)
            site = None
            for i, t in enumerate(toks):
                if t.text == '.' and _seq(toks, i, ['.', 'iter', '(', ')', '.', 'any', '(']) and toks[i + 7].text == '|':
                    site = i
                    break
            if site is None:
                break
            i = site
            rs = _receiver_start(toks, i)
            recv = text[toks[rs].start:toks[i].start].strip()
            mopen = i + 6
            mclose = match[mopen]
            param, body = _closure(text, toks, match, mopen)
            mark = ' /*@L:%s*/' % label if label else ''
            ens = ensures if not written_for or written_for == param else re.sub(r'(?<![\w.])%s\b' % re.escape(written_for), param, ensures)
            new = ('slice_any(%s, |%s: &%s| -> (b: bool)\n\t\tensures %s\n\t{\n\t\tlet b = %s;\n\t\tproof { assert(%s);%s }\n\t\tb\n\t})'
                   % (recv, param, elem_type, ens, _as_block(body), ens, mark))
            text = text[:toks[rs].start] + new + text[toks[mclose].end:]
            u.rules['R14'] += 1
            n += 1
        if n == 0:
            raise LostAnchor('%s: rule R14 found no `.iter().any(|..| ..)`' % key)
        return text
    return rule


def r_assert_message(u, key, text):
    """RES1: assert!(COND, "fmt {x:?}")  ->  assert!(COND)
    The message is only evaluated on the panic path; the obligation (COND holds, i.e. no panic) is unchanged.
    Verus has no spec for core::fmt."""
    out, pos = [], 0
    for m in re.finditer(r'\b(debug_)?assert!\(', text):
        if m.start() < pos:
            continue
        start = m.end()
        toks = tokenize(text[start:])
        depth, comma, endp = 0, None, None
        for t in toks:
            if t.kind == 'p' and t.text in '([{':
                depth += 1
            elif t.kind == 'p' and t.text in ')]}':
                if depth == 0:
                    endp = t.start
                    break
                depth -= 1
            elif t.kind == 'p' and t.text == ',' and depth == 0 and comma is None:
                comma = t.start
        if endp is None:
            raise LostAnchor('%s: RES1 unbalanced assert!' % key)
        if comma is None:
            continue
        out.append(text[pos:start + comma])
        pos = start + endp
        u.rules['RES1-assert-message'] += 1
    out.append(text[pos:])
    return ''.join(out)


def r_err_question(u, key, text):
    """RES2: `Err(E)?`  ->  `return Err(core::convert::From::from(E))`
    which is the definition of `?` applied to a value that is syntactically `Err(..)` (the Ok arm is dead).
    Needed where Verus cannot type the Ok arm of the desugaring (`Err(E)?` as the value of a match arm / tail)."""
    n = 0
    while True:
        toks = tokenize(text)
        match = match_brackets(toks)
        site = None
        for i, t in enumerate(toks):
            if t.kind == 'id' and t.text == 'Err' and toks[i + 1].text == '(' and (i == 0 or toks[i - 1].text not in ('.', '::')):
                close = match[i + 1]
                if close + 1 < len(toks) and toks[close + 1].text == '?':
                    site = (i, close)
                    break
        if site is None:
            break
        i, close = site
        inner = text[toks[i + 1].end:toks[close].start]
        text = text[:toks[i].start] + 'return Err(core::convert::From::from(' + inner + '))' + text[toks[close + 1].end:]
        u.rules['RES2-err-question'] += 1
        n += 1
    return text
