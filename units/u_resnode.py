"""U-RESNODE (C06, leaned on by C04 / C05): the error collection of ALL node impls of `Resolvable` (src/alpha/resolver.rs): Identifier,
Member, Parameter, FunctionBody, Comparison, Declaration (verified directly), Statement, Else, ValueType, Expression, Reference,
ReferenceStep, MemberExpression (recursive through the generic combinators: verified by the mirror-trait induction scheme of
prelude/resnode_rec.rs, because Verus rejects recursion through generic trait impls), and `pub fn resolve`.
Continues U-COLLECT, whose trait-level contract and generic combinators are imported (contracts loaded from contracts/u_collect.vc
and contracts/u_acc.vc; the combinators re-verified here with one addition: a trait-level precondition `pre`, and a second time
under the mirror names).  Each node DEFINES errs / poisoned / pre (and resolves_to, except in the Expression cluster where the
resolved FORM is left open) from its FIELDS: spec/u_resnode_spec.rs.
Assumed: the induction hypotheses `RecResolvable for Statement / ValueType / Expression` (prelude/resnode_rec.rs); the operator /
cast drivers and resolve_compared_type as deterministic functions of their arguments (unit U-RES verifies what they are, on its own
opaque Expression - its contracts cannot be imported literally); Typed::value_type / Expression::location / builtin::resolve as
functions; EnumSet model; derived Clone = identity."""
import os
from vlib import rules, vc
from units.u_align import emit_types
from units.u_collect import IMPLS as COMBINATORS, TRAIT_SPECS, inject
from units.u_collect_rules import r_into_from
from units.u_resnode_rules import r_option_filter, r_question

R = 'src/alpha/resolver.rs'
E = 'src/alpha/error.rs'
C = 'src/alpha/common.rs'
RS = 'src/alpha/resolved.rs'

# `pre` of the generic combinators: that of the parts
COMBINATOR_PRE = {
    'Vec<T>': 'list_pre(self@)',
    '(T1, T2)': 'self.0.pre() && self.1.pre()',
    '(T1, T2, T3)': 'self.0.pre() && self.1.pre() && self.2.pre()',
    '(T1, T2, T3, T4)': 'self.0.pre() && self.1.pre() && self.2.pre() && self.3.pre()',
    'Option<T>': 'match self { Some(v) => v.pre(), None => true }',
    'Box<T>': '(*self).pre()',
    'Poisonable<T>': 'match self { Ok(v) => v.pre(), Err(_) => true }',
}


def defs(pre, errs, poisoned, resolves_to):
    return inject('\topen spec fn pre(self) -> bool { %s }\n'
                  '\topen spec fn errs(self) -> Seq<Error> { %s }\n'
                  '\topen spec fn poisoned(self) -> bool { %s }\n'
                  '\topen spec fn resolves_to(self, x: Self::Item) -> bool { %s }' % (pre, errs, poisoned, resolves_to))


def parts(fields, xfields):
    """a node that hands the tuple of `fields` to the tuple combinator and builds its item from the results `xfields`"""
    t = '(%s)' % ', '.join('self.' + f for f in fields)
    x = '(%s)' % ', '.join('x.' + f for f in xfields)
    return defs('%s.pre()' % t, '%s.errs()' % t, '%s.poisoned()' % t, '%s.resolves_to(%s)' % (t, x))


CMP = '(self.left, self.right)'
VERDICT = 'compared_type_of(self.op, self.left, self.right, self.location)'
NODES = [
    ('impl Resolvable for Identifier',
     defs('self.resolution_id > 0', 'Seq::empty()', 'false', 'x.name == self.name && x.resolution_id == self.resolution_id'), []),
    ('impl Resolvable for Member', parts(['name', 'value_type'], ['name', 'value_type']), []),
    ('impl Resolvable for Parameter', parts(['name', 'value_type'], ['name', 'value_type']), []),
    ('impl Resolvable for FunctionBody', parts(['statements', 'return_value'], ['statements', 'return_value']), []),
    ('impl Resolvable for Comparison',
     defs('%s.pre()' % CMP,
          'if fails(%s) { %s.errs() } else { own_errs(%s) }' % (CMP, CMP, VERDICT),
          'if fails(%s) { %s.poisoned() } else { own_poisoned(%s) }' % (CMP, CMP, VERDICT),
          '%s.resolves_to((x.left, x.right)) && x.op == self.op && %s == Ok::<resolved::ValueType, Errors>(x.compared_type)' % (CMP, VERDICT)), []),
    ('impl Resolvable for Declaration',
     defs('decl_pre(self)', 'decl_errs(self)', 'decl_poisoned(self)', 'decl_resolves_to(self, x)'),
     [r_option_filter, r_question(['error']), r_into_from('Errors')]),
]


MIRROR = [(r'\bResolvable\b', 'RecResolvable'), (r'\.resolve\(\)', '.rec_resolve()'), (r'\bfn resolve\(', 'fn rec_resolve('),
          (r'\bspec fn (pre|errs|poisoned|resolves_to)\(', r'spec fn rec_\1('), (r'\.(pre|errs|poisoned)\(\)', r'.rec_\1()'),
          (r'\.resolves_to\(', '.rec_resolves_to('), (r'\blist_(pre|errs|poisoned|resolves_to)\(', r'rec_list_\1(')]


def mirror(text):
    """the sliced text of the trait / a generic combinator under the names of the mirror trait RecResolvable (prelude/resnode_rec.rs)"""
    import re
    out = []
    # the runner's marker comments (//@fn .., /*@S:..*/) name the contract key and stay as they are
    for seg in re.split(r'(/\*@S:[^*]*\*/|//@(?:fn|hint)[^\n]*)', text):
        if not (seg.startswith('/*@S:') or seg.startswith('//@')):
            for a, b in MIRROR:
                seg = re.sub(a, b, seg)
        out.append(seg)
    return ''.join(out)


def mirror_contract(c):
    import copy
    c = copy.deepcopy(c)
    c.used = False
    f = lambda lines: [mirror(l) for l in lines]
    c.clauses = [(sec, f(lines)) for sec, lines in c.clauses]
    for lc in c.loops:
        lc.clauses = [(sec, f(lines)) for sec, lines in lc.clauses]
    c.inserts = [(w, n, a, f(lines)) for (w, n, a, lines) in c.inserts]
    if not c.key.startswith('trait '):
        # (ghost) the inherited precondition, said once in terms of this impl: with two traits of the same shape in the file Verus
        # does not unfold it by itself
        c.body_prefix = list(c.body_prefix) + ['\t\tproof { assert(self.rec_pre()); }']
        for ty, lines in MIRROR_DEFS.items():
            if (' for %s where' % ty) in c.key:
                c.body_prefix += ['\t\tproof {'] + ['\t\t\t' + l for l in lines] + ['\t\t}']
    return c


def r_rec_calls(u, key, text):
    """RN3: inside the two RECURSIVE node impls `X.resolve()` is spelled `X.rec_resolve()`: the same call through the mirror trait
    RecResolvable, whose impls for the generic combinators are verified copies and whose impl for Statement is the induction
    hypothesis (prelude/resnode_rec.rs)"""
    n = text.count('.resolve()')
    if n:
        u.rules['RN3-recursive-call-through-mirror-trait'] += n
        text = text.replace('.resolve()', '.rec_resolve()')
    return text


# (ghost) the impl's own definitions, spelled out once: Verus does not reliably unfold them by itself in the mirror impls
MIRROR_DEFS = {
    '(T1, T2, T3)': [
        'assert(self.rec_pre() == (self.0.rec_pre() && self.1.rec_pre() && self.2.rec_pre()));',
        'assert(self.rec_errs() == self.0.rec_errs() + self.1.rec_errs() + self.2.rec_errs());',
        'assert(self.rec_poisoned() == (self.0.rec_poisoned() || self.1.rec_poisoned() || self.2.rec_poisoned()));',
        'assert forall|x: Self::Item| self.rec_resolves_to(x) == (self.0.rec_resolves_to(x.0) && self.1.rec_resolves_to(x.1) && self.2.rec_resolves_to(x.2)) by { }',
    ],
    '(T1, T2)': [
        'assert(self.rec_pre() == (self.0.rec_pre() && self.1.rec_pre()));',
        'assert(self.rec_errs() == self.0.rec_errs() + self.1.rec_errs());',
        'assert(self.rec_poisoned() == (self.0.rec_poisoned() || self.1.rec_poisoned()));',
        'assert forall|x: Self::Item| self.rec_resolves_to(x) == (self.0.rec_resolves_to(x.0) && self.1.rec_resolves_to(x.1)) by { }',
    ],
    'Option<T>': [
        'assert(self.rec_pre() == (match self { Some(v) => v.rec_pre(), None => true }));',
        'assert(self.rec_errs() == (match self { Some(v) => v.rec_errs(), None => Seq::empty() }));',
        'assert(self.rec_poisoned() == (match self { Some(v) => v.rec_poisoned(), None => false }));',
        'assert forall|x: Self::Item| self.rec_resolves_to(x) == (match self { Some(v) => x is Some && v.rec_resolves_to(x->Some_0), None => x is None }) by { }',
    ],
    'Box<T>': [
        'assert(self.rec_pre() == (*self).rec_pre());',
        'assert(self.rec_errs() == (*self).rec_errs());',
        'assert(self.rec_poisoned() == (*self).rec_poisoned());',
        'assert forall|x: Self::Item| self.rec_resolves_to(x) == (*self).rec_resolves_to(*x) by { }',
    ],
    'Poisonable<T>': [
        'assert(self.rec_pre() == (match self { Ok(v) => v.rec_pre(), Err(_) => true }));',
        'assert(self.rec_errs() == (match self { Ok(v) => v.rec_errs(), Err(p) => poison_errs(p) }));',
        'assert(self.rec_poisoned() == (match self { Ok(v) => v.rec_poisoned(), Err(p) => p is Poisoned }));',
        'assert forall|x: Self::Item| self.rec_resolves_to(x) == (match self { Ok(v) => v.rec_resolves_to(x), Err(p) => false }) by { }',
    ],
    'Vec<T>': [
        'assert(self.rec_pre() == rec_list_pre(self@));',
        'assert(self.rec_errs() == rec_list_errs(self@));',
        'assert(self.rec_poisoned() == rec_list_poisoned(self@));',
        'assert forall|x: Self::Item| self.rec_resolves_to(x) == rec_list_resolves_to(self@, x@) by { }',
    ],
}
SPELLED_OUT = ['ReferenceStep', 'Reference', 'MemberExpression', 'Expression']
TAG = ' [mirror]'
MIRRORED = ['Vec<T>', '(T1, T2)', '(T1, T2, T3)', 'Option<T>', 'Box<T>', 'Poisonable<T>']
RECURSIVE = [
    ('impl Resolvable for Statement', ('stmt_pre(self)', 'stmt_errs(self)', 'stmt_poisoned(self)', 'stmt_resolves_to(self, x)')),
    ('impl Resolvable for ValueType', ('vt_pre(self)', 'Seq::empty()', 'false', 'vt_resolves_to(self, x)')),
    ('impl Resolvable for ReferenceStep', ('step_pre(self)', 'step_errs(self)', 'step_poisoned(self)', 'true')),
    ('impl Resolvable for Reference', ('ref_pre(self)', 'ref_errs(self)', 'ref_poisoned(self)', 'true')),
    ('impl Resolvable for MemberExpression', ('mexpr_pre(self)', 'mexpr_errs(self)', 'mexpr_poisoned(self)', 'true')),
    ('impl Resolvable for Expression', ('expr_pre(self)', 'expr_errs(self)', 'expr_poisoned(self)', 'true')),
    ('impl Resolvable for Else', ('stmt_pre(*self.branch)', 'stmt_errs(*self.branch)', 'stmt_poisoned(*self.branch)', 'stmt_resolves_to(*self.branch, *x)')),
]


def import_collect_contracts(u):
    """U-COLLECT's contracts (trait + combinators + From<Poison>) and U-ACC's (From<Error>, combined_with), loaded from their files;
    the trait method additionally REQUIRES self.pre(), and the Vec loop carries the elements' pre"""
    col = vc.parse(os.path.join(u.verif, 'contracts/u_collect.vc'))
    acc = vc.parse(os.path.join(u.verif, 'contracts/u_acc.vc'))
    for k, c in col.items():
        if k.startswith('trait Resolvable') or k.startswith('impl<') or k == 'impl From<Poison> for Errors :: fn from':
            u.contracts[k] = c
    for k in ['impl From<Error> for Errors :: fn from', 'impl Errors :: fn combined_with']:
        u.contracts[k] = acc[k]
    t = u.contracts['trait Resolvable :: fn resolve']
    t.clauses.insert(0, ('requires', ['[C06.resnode.what_earlier_stages_guarantee] self.pre(),']))
    v = [c for k, c in u.contracts.items() if k.startswith('impl<T> Resolvable for Vec<T>')][0]
    for sec, lines in v.loops[0].clauses:
        if sec == 'invariant':
            lines.append('list_pre(self@),')
    for k in list(u.contracts):
        if k.startswith('trait Resolvable') or (k.startswith('impl<') and any((' for %s where' % t) in k for t in MIRRORED)):
            head, fn = k.split(' :: ')
            u.contracts[head + TAG + ' :: ' + fn] = mirror_contract(u.contracts[k])


def build(u):
    u.load_contracts('contracts/u_resnode.vc')
    import_collect_contracts(u)
    emit_types(u, ['is_void'])
    u.opaque += ['Location', 'lexer::Error', 'EnumSet<T>', 'builtin::Fd',
                 'RecResolvable for Statement / ValueType / Expression (induction hypotheses of the mirror-trait scheme, prelude/resnode_rec.rs)',
                 'resolve_compared_type, resolve_binary_op_type, resolve_unary_op_type, analyze_bit_cast_and_get_coerced_type, '
                 'analyze_primitive_cast_and_get_value_type, builtin::resolve (deterministic functions of their arguments; U-RES)']
    u.emit(C, 'enum DeclarationFlag')
    u.include('prelude/resnode_types.rs')
    for it in ['enum BinaryOp', 'enum UnaryOp', 'enum ComparisonOp', 'enum Builtin']:
        u.emit(C, it)
    for it in ['struct Array', 'struct MemberExpression', 'enum Expression', 'enum DesliceOffset', 'enum ReferenceStep', 'struct Reference',
               'struct Comparison', 'struct Else', 'enum Statement', 'struct Block', 'struct FunctionBody', 'struct Parameter', 'enum Declaration']:
        u.emit(C, it, derive_drop=['Clone'])
    u.emit(E, 'struct Errors')
    # ---- resolved.rs: the output types (Expression / Reference opaque: their impls are not in the unit)
    u.raw('pub mod resolved {\nuse vstd::prelude::*;\nuse vstd::std_specs::cmp::{PartialEqSpec, PartialEqSpecImpl};\nuse super::*;')
    u.emit(RS, 'type ValueType')
    u.emit(RS, 'struct Identifier', derive_drop=['Clone'])
    u.emit(RS, 'impl value_type::Identifier for Identifier')
    u.emit(RS, 'impl PartialEq for Identifier')
    for it in ['struct Member', 'struct Parameter', 'struct Block', 'enum Statement', 'struct Comparison', 'struct FunctionBody', 'enum Declaration',
               'struct MemberExpression', 'enum Expression', 'struct Reference', 'enum ReferenceStep', 'enum GeneratorBuiltin']:
        u.emit(RS, it, derive_drop=['Clone'])
    u.raw('} // mod resolved')
    u.include('spec/u_collect_spec.rs', kind='spec')
    u.include('spec/u_resnode_spec.rs', kind='spec')
    u.emit(E, 'impl From<Error> for Errors')
    u.emit(E, 'impl From<Poison> for Errors', rules=[r_into_from('Errors')])
    u.emit(E, 'impl Errors', only=['combined_with'])
    u.emit(R, 'trait Resolvable', pre=inject(TRAIT_SPECS + '\n\tspec fn pre(self) -> bool;'))
    for header, pre, rl in COMBINATORS:
        ty = header.split(' for ')[1].split(' where ')[0]
        u.emit(R, header, rules=rl, pre=(lambda t, pre=pre, ty=ty: inject('\topen spec fn pre(self) -> bool { %s }' % COMBINATOR_PRE[ty])(pre(t))))
    u.emit('src/alpha/typer.rs', 'trait Typed')
    u.include('prelude/resnode_standins.rs')
    for header, pre, rl in NODES:
        u.emit(R, header, rules=rl, pre=pre)
    # ---- the mirror trait and combinators (same sliced text, mirror names), then the two recursive impls
    u.emit(R, 'trait Resolvable', key_tag=TAG, pre=lambda t: mirror(inject(TRAIT_SPECS + '\n\tspec fn pre(self) -> bool;')(t)))
    for header, pre, rl in COMBINATORS:
        ty = header.split(' for ')[1].split(' where ')[0]
        if ty in MIRRORED:
            u.emit(R, header, rules=rl, key_tag=TAG,
                   pre=(lambda t, pre=pre, ty=ty: mirror(inject('\topen spec fn pre(self) -> bool { %s }' % COMBINATOR_PRE[ty])(pre(t)))))
    u.include('prelude/resnode_rec.rs')
    for header, d in RECURSIVE:
        c = u.contracts.get(header + ' :: fn resolve')
        if c is not None and header.split(' for ')[1] in SPELLED_OUT:
            c.body_prefix = ['\t\tproof {',
                             '\t\t\tassert(Resolvable::pre(self) == (%s));' % d[0],
                             '\t\t\tassert(Resolvable::errs(self) == (%s));' % d[1],
                             '\t\t\tassert(Resolvable::poisoned(self) == (%s));' % d[2],
                             '\t\t}'] + list(c.body_prefix)
        u.emit(R, header, rules=[r_rec_calls, r_question(), r_into_from('Errors')], pre=defs(*d))
    u.emit(R, 'fn resolve')
