"""Rewrite rules used only by unit U-WALK (DESIGN.md 2.3 conventions; numbered locally).  Every rule is local and syntactic, counts
itself in `unit.rules`; a pattern that is not there leaves the text alone (the walk is then judged by its contracts or rejected by
Verus: closures that capture `&mut analyzer` are outside the dialect).

WK1  Result::and_then with a closure that captures `&mut analyzer`:
       E.and_then(|p| BODY)                      ->  match E { Ok(p) => BODY, Err(wk_e) => Err(wk_e) }        (BODY without `?` / `return`)
       E.and_then(|p| { let V = CALL?; Ok(V) })  ->  match E { Ok(p) => match CALL { Ok(V) => Ok(V), Err(wk_q) => Err(core::convert::From::from(wk_q)) },
                                                               Err(wk_e) => Err(wk_e) }
     std: Result::and_then "Calls op if the result is Ok, otherwise returns the Err value of self"; inside the closure `X?` is
     `match X { Ok(v) => v, Err(e) => return Err(From::from(e)) }` where `return` leaves the CLOSURE, i.e. is the value of and_then.
     Every receiver of `.and_then` in the walk is a Result (Poisonable<..>); any other closure body with `?` / `return`: LostAnchor.
WK2  flags | DeclarationFlag::Main   ->   walk_with_main_flag(flags)      opaque stand-in (prelude/walk_std.rs): DeclarationFlag and
     EnumSet are opaque in this unit (the walk only moves the flags), the result is unconstrained.
WK3  match S.as_str() { "lit" => A, _ => B }   ->   if walk_str_is(S.as_str(), "lit") { A } else { B }
     trusted wrapper whose body is `s == lit` (string-literal patterns are outside the Verus dialect; its result is unconstrained:
     the scope discipline does not depend on it).
WK4  X.depth.clone()   ->   walk_clone_depth(&X.depth)     trusted wrapper whose body is `d.clone()` (Option<Result<u32, Poison>>: the
     derived / std Clone of Option and Result over the identity Clone of u32 and Poison; vstd gives Option::clone no usable spec).
"""
import re
from vlib.rsparse import LostAnchor, tokenize, match_brackets
from vlib.rules import _seq, _postfix_start, _closure, _as_block


def wk1_result_and_then(u, key, text):
    while True:
        toks = tokenize(text)
        match = match_brackets(toks)
        site = None
        for i, t in enumerate(toks):
            if t.text == '.' and _seq(toks, i, ['.', 'and_then', '(']) and toks[i + 3].text == '|':
                site = i
                break
        if site is None:
            return text
        i = site
        rs = _postfix_start(toks, match, i)
        recv = text[toks[rs].start:toks[i].start].strip()
        param, body = _closure(text, toks, match, i + 2)
        if re.search(r'\?|\breturn\b', body):
            m = re.match(r'^\{\s*let\s+(\w+)\s*=\s*(.*?)\?\s*;\s*Ok\(\s*(\w+)\s*\)\s*\}$', body.strip(), re.S)
            if not m or m.group(1) != m.group(3) or re.search(r'\?|\breturn\b', m.group(2)):
                raise LostAnchor('%s: WK1 closure body leaves the closure early in a way the rule does not know: %r' % (key, body[:60]))
            inner = ('match %s { Ok(%s) => Ok(%s), Err(wk_q) => Err(core::convert::From::from(wk_q)) }' % (m.group(2).strip(), m.group(1), m.group(1)))
        else:
            inner = _as_block(body)
        new = 'match %s { Ok(%s) => %s, Err(wk_e) => Err(wk_e) }' % (recv, param, inner)
        text = text[:toks[rs].start] + new + text[toks[match[i + 2]].end:]
        u.rules['WK1-result-and-then'] += 1


def wk2_main_flag(u, key, text):
    text, n = re.subn(r'\bflags\s*\|\s*DeclarationFlag\s*::\s*Main\b', 'walk_with_main_flag(flags)', text)
    u.rules['WK2-opaque-flag-union'] += n
    return text


def wk3_str_match(u, key, text):
    pat = re.compile(r'match\s+([\w.]+\.as_str\(\))\s*\{\s*("(?:[^"\\]|\\.)*")\s*=>\s*([^,{}]+?),\s*_\s*=>\s*([^,{}]+?),?\s*\}', re.S)
    def f(m):
        u.rules['WK3-string-literal-match'] += 1
        return 'if walk_str_is(%s, %s) { %s } else { %s }' % (m.group(1), m.group(2), m.group(3).strip(), m.group(4).strip())
    return pat.sub(f, text)


def wk4_clone_depth(u, key, text):
    text, n = re.subn(r'\b([A-Za-z_]\w*)\.depth\.clone\(\)', r'walk_clone_depth(&\1.depth)', text)
    u.rules['WK4-clone-depth'] += n
    return text
