"""U-EXTERN: src/alpha/typer.rs `externalize_type` + its caller kernel `fix_type_for_flags` (C11: non-ABI types in
`extern` signatures are always rejected, E358; accepted types are externalised at every depth).

The real ValueType / Identifier / Error are sliced exactly as for U-ALIGN (`emit_types`); `is_wellformed` and the three
functions it calls come with their U-VT contracts (`r == wf(*self)`), so the `assert!(value_type.is_wellformed(), ..)`
at the head of `externalize_type` is a real obligation discharged from the precondition `wf(value_type)`."""
from units.u_align import emit_types
from units.u_extern_rules import r_assert_message

C = 'src/alpha/common.rs'
T = 'src/alpha/typer.rs'


def build(u):
    u.load_contracts('contracts/u_extern.vc')
    emit_types(u, ['is_wellformed', 'is_wellformed_element', 'is_wellformed_inner', 'can_be_element'])
    u.include('prelude/extern_enumset.rs')
    u.opaque += ['EnumSet<T> (trusted set model)']
    u.emit(C, 'enum DeclarationFlag')       # real 5-flag enum; its `EnumSetType` derive is dropped by extraction
    u.emit(T, 'enum FixContext')
    u.include('spec/u_extern_spec.rs', kind='spec')
    u.emit(T, 'fn fix_type_for_flags')
    u.emit(T, 'fn externalize_type', rules=[r_assert_message])
