"""Rewrite rules used only by unit U-RESNODE (DESIGN.md 2.3 conventions; numbered locally; every rule local and syntactic, counted
in `unit.rules`).

RN1  Some(E).filter(|x| P)   ->   match Some(E) { Some(rn_v) => if { let x = &rn_v; P } { Some(rn_v) } else { None }, None => None }
     (definition of Option::filter: "Returns None if the option is None, otherwise calls predicate with the wrapped value and
     returns Some(t) if predicate returns true, None if it returns false")
RN2  `Err(E)?`               ->   return Err(Errors::from(E))
     `NAME?` for the listed locals whose type is Result<_, Poison>   ->   match NAME { Ok(rn_ok) => rn_ok, Err(rn_e) => return Err(Errors::from(rn_e)) }
     (definition of `?` in a function returning Result<_, Errors>: the Err payload goes through `From::from`; written out because
     vstd specifies that conversion only through a value-level from_spec, which a type holding a Vec cannot have (as COL3).  A `?`
     whose payload already IS an Errors is left alone: vstd knows the identity conversion.)
"""
import re
from vlib.rsparse import LostAnchor, tokenize, match_brackets
from vlib.rules import _seq, _as_block
from units.u_keyoff_rules import _postfix_start


def r_option_filter(u, key, text):
    """RN1"""
    while True:
        toks = tokenize(text)
        match = match_brackets(toks)
        site = None
        for i, t in enumerate(toks):
            if t.text == '.' and _seq(toks, i, ['.', 'filter', '(']) and toks[i + 3].text == '|':
                site = i
                break
        if site is None:
            return text
        i = site
        mopen = i + 2
        mclose = match[mopen]
        rs = _postfix_start(toks, match, i)
        recv = text[toks[rs].start:toks[i].start].strip()
        j = mopen + 2
        while toks[j].text != '|':
            j += 1
        p = text[toks[mopen + 1].end:toks[j].start].strip()
        if not re.match(r'^\w+$', p):
            raise LostAnchor('%s: RN1 closure parameter is not an identifier' % key)
        body = text[toks[j].end:toks[mclose].start].strip().rstrip(',').strip()
        new = 'match %s { Some(rn_v) => if { let %s = &rn_v; %s } { Some(rn_v) } else { None }, None => None }' % (recv, p, body)
        text = text[:toks[rs].start] + new + text[toks[mclose].end:]
        u.rules['RN1-option-filter'] += 1


def r_question(poison_results=()):
    """RN2"""
    def rule(u, key, text):
        while True:
            toks = tokenize(text)
            match = match_brackets(toks)
            site = None
            for i, t in enumerate(toks):
                if t.kind == 'id' and t.text == 'Err' and toks[i + 1].text == '(' and (i == 0 or toks[i - 1].text not in ('.', '::')):
                    close = match[i + 1]
                    if close + 1 < len(toks) and toks[close + 1].text == '?':
                        site = (i, close)
                        break
            if site is None:
                break
            i, close = site
            inner = text[toks[i + 1].end:toks[close].start]
            text = text[:toks[i].start] + 'return Err(Errors::from(' + inner + '))' + text[toks[close + 1].end:]
            u.rules['RN2-err-question'] += 1
        for name in poison_results:
            pat = re.compile(r'(?<![\w.])%s\?' % re.escape(name))
            n = len(pat.findall(text))
            if n:
                text = pat.sub('match %s { Ok(rn_ok) => rn_ok, Err(rn_e) => return Err(Errors::from(rn_e)) }' % name, text)
                u.rules['RN2-poison-question'] += n
        return text
    return rule
