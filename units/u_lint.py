"""U-LINT: src/alpha/linter.rs, whole file.
C06 lint half: L1800 LoopAsFirstStatement is raised by exactly the braced if/else branches that start with `loop`.
C09 range arms: L1142 IntegerLiteralTruncation is raised by exactly the typed integer literals outside [min_i128(T), max_u128(T)]."""
from vlib.rsparse import LostAnchor
F = 'src/alpha/linter.rs'
C = 'src/alpha/common.rs'
E = 'src/alpha/error.rs'
V = 'src/alpha/value_type.rs'
ALIAS = 'pub use crate::alpha::error::Error as Lint;'


def inject(after_brace_text):
    def f(text):
        i = text.index('{')
        return text[:i + 1] + '\n' + after_brace_text + text[i + 1:]
    return f


def specs(pre, post):
    return inject('\topen spec fn pre(self, l: Linter) -> bool { %s }\n\topen spec fn post(self, l0: Linter, l1: Linter) -> bool { %s }' % (pre, post))


def emit_value_type(u):
    """value_type.rs lives in its own module: its trait `Identifier` and common.rs' struct `Identifier` share a name"""
    u.raw('pub mod value_type {\nuse vstd::prelude::*;\nuse super::*;')
    u.emit(V, 'trait Identifier')
    # derives dropped: Clone -> trusted identity clone (prelude/lint_vt.rs); PartialEq is never used by the linter
    u.emit(V, 'enum ValueType', derive_drop=['Clone', 'PartialEq'])
    u.emit(V, 'impl<I> ValueType<I> where I: Identifier', only=['min_i128', 'max_u128'])
    u.include('prelude/lint_vt.rs')
    u.raw('} // mod value_type')


def emit_ast(u):
    """the alpha AST as in units/ast_common.py, but with the real Comparison / Expression / Reference / ValueType"""
    u.include('prelude/lint_opaque.rs')
    u.opaque += ['Location', 'Builtin', 'Parameter', 'Member', 'OperandValueType', 'DeclarationFlag', 'EnumSet<T>', 'lexer::Error']
    emit_value_type(u)
    u.emit(C, 'type ValueType')
    u.emit(C, 'struct Identifier', derive_drop=['Clone'])
    u.emit(C, 'impl value_type::Identifier for Identifier')
    u.emit(C, 'impl PartialEq for Identifier')
    u.emit(E, 'enum Poison', derive_drop=['Clone'])
    u.emit(E, 'enum Error', derive_drop=['Clone'])
    u.emit(C, 'enum Declaration', derive_drop=['Clone'])
    u.emit(C, 'struct FunctionBody', derive_drop=['Clone'])
    u.emit(C, 'struct Block', derive_drop=['Clone'])
    u.emit(C, 'enum Statement', derive_drop=['Clone'])
    u.emit(C, 'struct Else', derive_drop=['Clone'])
    u.emit(C, 'struct Comparison', derive_drop=['Clone'])
    u.emit(C, 'enum ComparisonOp')
    u.emit(C, 'struct Array', derive_drop=['Clone'])
    u.emit(C, 'struct MemberExpression', derive_drop=['Clone'])
    u.emit(C, 'enum Expression', derive_drop=['Clone'])
    u.emit(C, 'enum BinaryOp')
    u.emit(C, 'enum UnaryOp')
    u.emit(C, 'enum DesliceOffset', derive_drop=['Clone'])
    u.emit(C, 'enum ReferenceStep', derive_drop=['Clone'])
    u.emit(C, 'struct Reference', derive_drop=['Clone'])


def build(u):
    if ALIAS not in u.source(F).text:
        raise LostAnchor('%s: `%s` not found (Lint must be an alias of error::Error)' % (F, ALIAS))
    u.load_contracts('contracts/u_lint.vc')
    u.notes += [
        'assumption: callers keep the Linter idle between declarations (requires of Linter::lint; alpha.rs only uses Linter::default() + lint() + into())',
        'trusted: derived Clone of lexer::Location and of value_type::ValueType<I> is the identity; #[derive(Default)] of Linter gives no lints / flags off',
        'hand-written: `pub type Lint = Error;` stands for `pub use crate::alpha::error::Error as Lint;` (presence of the line is checked)',
        'dropped: #[derive(PartialEq)] of ValueType<I> (never used by linter.rs); impl PartialEq for Identifier is sliced but given no spec (never called)',
        'contracts of ValueType::min_i128 / max_u128 are copied from contracts/u_vt.vc and re-verified here',
        'labels inside fn bodies: every body_prefix starts with /*@U*/ so that a failed postcondition is attributed to its own clause',
    ]
    emit_ast(u)
    u.include('spec/u_lint_spec.rs', kind='spec')
    u.emit(F, 'struct Linter', pub_fields=True)
    u.emit(F, 'impl Linter')
    u.emit(F, 'impl From<Linter> for Vec<Lint>')
    u.emit(F, 'struct NakedBranch', pub_fields=True)
    u.emit(F, 'struct Branch', pub_fields=True)
    u.emit(F, 'trait Lintable', pre=inject('\tspec fn pre(self, l: Linter) -> bool;\n\tspec fn post(self, l0: Linter, l1: Linter) -> bool;'))
    u.emit(F, 'impl<T: Lintable> Lintable for Option<T>', pre=specs(
        'match self { Some(t) => t.pre(l), None => true }',
        'match self { Some(t) => t.post(l0, l1), None => l1 == l0 }'))
    u.emit(F, 'impl Lintable for Declaration', pre=specs('idle(l)', 'lint_post(l0, l1, exp_d(self))'))
    u.emit(F, 'impl Lintable for FunctionBody', pre=specs('idle(l)', 'lint_post(l0, l1, exp_f(self))'))
    u.emit(F, 'impl Lintable for Block', pre=specs('true', 'lint_post(l0, l1, exp_b(self, l0.is_naked_branch)) && flags_b(self, l0, l1)'))
    u.emit(F, 'impl Lintable for Statement', pre=specs(
        'true', 'lint_post(l0, l1, exp_ctx(self, l0.is_naked_branch, l0.is_first_statement_of_branch)) && flags_s(self, l0, l1)'))
    u.emit(F, 'impl Lintable for Expression', pre=specs('true', 'expr_post(l0, l1) && l1.lints@ =~= l0.lints@ + trunc_e(self)'))
    u.emit(F, 'impl Lintable for Reference', pre=specs('true', 'expr_post(l0, l1) && l1.lints@ =~= l0.lints@ + trunc_r(self)'))
    u.emit(F, 'impl Lintable for ReferenceStep', pre=specs('true', 'expr_post(l0, l1) && l1.lints@ =~= l0.lints@ + trunc_step(self)'))
