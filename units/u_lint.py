"""U-LINT: src/alpha/linter.rs (C06 lint half: L1800 LoopAsFirstStatement raised by exactly the braced branches that start with `loop`)."""
from vlib.rsparse import LostAnchor
F = 'src/alpha/linter.rs'
C = 'src/alpha/common.rs'
E = 'src/alpha/error.rs'
ALIAS = 'pub use crate::alpha::error::Error as Lint;'


def inject(after_brace_text):
    def f(text):
        i = text.index('{')
        return text[:i + 1] + '\n' + after_brace_text + text[i + 1:]
    return f


def specs(pre, post):
    return inject('\topen spec fn pre(self, l: Linter) -> bool { %s }\n\topen spec fn post(self, l0: Linter, l1: Linter) -> bool { %s }' % (pre, post))


def emit_ast(u):
    """the alpha AST as in units/ast_common.py, except that Comparison is the real struct (the If arm reads condition.location)"""
    u.include('prelude/lint_opaque.rs')
    u.opaque += ['Location', 'Expression', 'Reference', 'Builtin', 'Parameter', 'Member', 'ValueType',
                 'OperandValueType', 'DeclarationFlag', 'EnumSet<T>', 'lexer::Error']
    u.emit(C, 'struct Identifier', derive_drop=['Clone'])
    u.emit(E, 'enum Poison', derive_drop=['Clone'])
    u.emit(E, 'enum Error', derive_drop=['Clone'])
    u.emit(C, 'enum Declaration', derive_drop=['Clone'])
    u.emit(C, 'struct FunctionBody', derive_drop=['Clone'])
    u.emit(C, 'struct Block', derive_drop=['Clone'])
    u.emit(C, 'enum Statement', derive_drop=['Clone'])
    u.emit(C, 'struct Else', derive_drop=['Clone'])
    u.emit(C, 'struct Comparison', derive_drop=['Clone'])
    u.emit(C, 'enum ComparisonOp')


def build(u):
    if ALIAS not in u.source(F).text:
        raise LostAnchor('%s: `%s` not found (Lint must be an alias of error::Error)' % (F, ALIAS))
    u.load_contracts('contracts/u_lint.vc')
    emit_ast(u)
    u.include('spec/u_lint_spec.rs', kind='spec')
    u.emit(F, 'struct Linter', pub_fields=True)
    u.emit(F, 'impl Linter')
    u.emit(F, 'impl From<Linter> for Vec<Lint>')
    u.emit(F, 'struct NakedBranch', pub_fields=True)
    u.emit(F, 'struct Branch', pub_fields=True)
    u.emit(F, 'trait Lintable', pre=inject('\tspec fn pre(self, l: Linter) -> bool;\n\tspec fn post(self, l0: Linter, l1: Linter) -> bool;'))
    u.emit(F, 'impl<T: Lintable> Lintable for Option<T>', pre=specs(
        'match self { Some(t) => t.pre(l), None => true }',
        'match self { Some(t) => t.post(l0, l1), None => l1 == l0 }'))
    u.emit(F, 'impl Lintable for Declaration', pre=specs('idle(l)', 'lint_post(l0, l1, exp_d(self))'))
    u.emit(F, 'impl Lintable for FunctionBody', pre=specs('idle(l)', 'lint_post(l0, l1, exp_f(self))'))
    u.emit(F, 'impl Lintable for Block', pre=specs('true', 'lint_post(l0, l1, exp_b(self, l0.is_naked_branch))'))
    u.emit(F, 'impl Lintable for Statement', pre=specs(
        'true', 'lint_post(l0, l1, exp_ctx(self, l0.is_naked_branch, l0.is_first_statement_of_branch))'))
