"""U-PSPAN (C13 "diagnostics are well located") - the SPAN BOOKKEEPING of the first-generation parser src/alpha/parser.rs: a uniform
postcondition (spec/u_pspan_spec.rs: node_at / extends_loc / err_at) over the expression layer, the type layer and part of the statement
layer.  Three units share contracts/u_pspan.vc, the spec and this generator (build_with): each verifies some functions on the real text
and takes the others as external bodies with the SAME contract text, so that the units close each other's assumptions by matching text:
  U-PSPAN   the cursor, parse_expression, parse_addition, parse_rest_of_bitwise_expression, parse_rest_of_bitshift_operation,
            parse_multiplication, parse_singular_expression, parse_unary_expression, parse_arguments, parse_body_of_structural,
            parse_addressed_reference, parse_reference, parse_rest_of_reference, parse_wellformed_type, parse_inner_type,
            parse_comparison, parse_rest_of_block
  U-PSPAN2  parse_primary_expression, parse_rest_of_array          U-PSPAN3  parse_statement
(the many-armed functions verify only with the quantified definitions `ordered` / `tokens_wf` hidden in their bodies and lemma calls
per arm; together with everything else they exceed a minute, hence the split).  Termination by (remaining tokens, rank).
NOT reached: parse_function_body, declarations, parse().  Trusted: find_builtin, i128::unsigned_abs, ValueType::is_wellformed (result
unconstrained), U-PLIT's trusted text; Tokens::with_reservation / TokenReservation are external items (used only by parse_statement,
where rule PS2 replaces them by ps_reserve / ps_release generated from their real bodies).
Imported and extended (clauses appended): contracts/u_loc.vc, contracts/u_plit.vc; spec/u_plit_spec.rs and U-PLIT's type extraction."""
import os
import re
from vlib import rules
from vlib import vc
from units.u_align import import_contracts
from units.u_plit import emit_types, C, E, L, P
from units import u_pspan_rules as PR


RLIMIT = 40


def extend(u, key, section, lines):
    c = u.contracts[key]
    for k, (sec, ls) in enumerate(c.clauses):
        if sec == section:
            c.clauses[k] = (sec, list(ls) + list(lines))
            return
    # keep the order requires < ensures < decreases
    order = {'requires': 0, 'ensures': 1, 'decreases': 2}
    pos = len(c.clauses)
    for k, (sec, ls) in enumerate(c.clauses):
        if order.get(sec, 1) > order[section]:
            pos = k
            break
    c.clauses.insert(pos, (section, list(lines)))


STREAM = '[C13.pspan.cursor_stays_well_formed] stream_wf(*old(%s)) ==> stream_wf(*final(%s)),'


EXPR = ('parse_expression', 'parse_addition', 'parse_rest_of_bitwise_expression', 'parse_rest_of_bitshift_operation', 'parse_multiplication',
        'parse_singular_expression', 'parse_unary_expression', 'parse_primary_expression', 'parse_arguments', 'parse_rest_of_array',
        'parse_body_of_structural', 'parse_addressed_reference', 'parse_reference', 'parse_rest_of_reference',
        'parse_wellformed_type', 'parse_inner_type', 'parse_comparison', 'parse_rest_of_block', 'parse_statement')
ASSUMED = ('parse_statement',)
HERE = tuple(f for f in EXPR if f not in ('parse_primary_expression', 'parse_rest_of_array') + ASSUMED)


def externalize(c):
    """real signature and text, external body: the function's contract is ASSUMED in this unit (and proved in the sister unit)"""
    c.loops, c.inserts, c.body_prefix, c.closures = [], [], [], []
    c.attrs = ['#[verifier::external_body]']


def build(u):
    build_with(u, HERE)


def build_with(u, verified, extra=(), extra_types=None, extra_rules=()):
    """`extra`: further functions of parser.rs emitted (and verified) after the nineteen shared ones (U-PSPAN4); `extra_types(u)` emits the types they need"""
    u.load_contracts('contracts/u_pspan.vc')
    u.notes += [
        'precondition of every parse function: stream_wf = every token location is a forward span AND the spans are ordered along the stream (what U-LEXA proves of lex())',
        'FINDING (the contracts state what the code does): the location of a call f(x) is the location of the NAME only, so a node whose last operand is a call ends '
        'before its last token: node_at bounds the end (first token end <= end <= last token end) instead of pinning it; references, array literals and the '
        'bracketed unary forms do end at their last token (stated where proved)',
        'a bit cast `cast e` obeys the uniform rule (start, file, line and column of the `cast` keyword): clause cast_spans_from_its_keyword_to_its_type; the first version of this unit pinned the old behaviour (operand line) as a finding, which was a genuine violation and is repaired in the repository (ed22e30)',
        'rule PS1 (units/u_pspan_rules.py): a guarded `match peek(tokens) { Some(t) if G => A, _ => B }` has its guard hoisted (the verifier keeps the reborrow alive over the guarded match)',
        'parse_rest_of_bitwise_expression is verified with loop_isolation(false): its by-value parameter `expression` is reassigned in the loop and the postcondition speaks of its initial value',
        'parse_unary_expression and parse_primary_expression carry the location clauses only here; their C09 literal clauses stay with U-PLIT (same text)',
        'statements: `if`, `loop`, `goto`, `var` and assignments are located by their FIRST token only (sloc); a block by `{` .. `}`; a label by name and colon; a call statement by its name',
        'no reservation is pending when a statement starts (precondition) and after a statement was parsed successfully; after an Err nothing is claimed about the reservation',
        'NOT pinned by the uniform contract: the END of a node (only bounded: a call is located by its name), e.g. a parenthesised expression located before its closing parenthesis is consumed is not detected',
        'Err: one of UnexpectedEndOfFile / Lexical / UnexpectedToken / MaximumParseDepthExceeded, a forward span that does not end after the last lexed token; '
        'UnexpectedEndOfFile: location == last_location == location of the LAST token of the file; at the cursor (consume / extract / extract_identifier) '
        'every other error is located exactly at the offending token',
    ]
    u.load_contracts('contracts/u_plit.vc')
    u.load_contracts('contracts/u_loc.vc')
    # ---- the imported contracts, extended (clauses appended; nothing removed)
    extend(u, 'impl Tokens :: fn pop_front', 'ensures', [STREAM % ('self', 'self'),
        '[C13.pspan.pop_takes_one_token] r is Some ==> took(*old(self), *final(self), 1) && taken(*old(self), *final(self)) == 1,'])
    u.contracts['impl Tokens :: fn pop_front'].inserts.append(('before', 0, 'popped', [
        '\t\tproof { if old(self).tokens@.len() > 0 { if stream_wf(*old(self)) { lemma_suffix_wf(*old(self), *self, 1); } lemma_took_one(*old(self), *self); } }']))
    extend(u, 'impl Tokens :: fn location_of_span', 'ensures', [
        '[C13.pspan.span_location_is_tight] start is Some ==> (r.span.start == start->0.span.start || r.span.start == self.last_location.span.start)'
        ' && (r.span.end == start->0.span.end || r.span.end == self.last_location.span.end),'])
    for f in ('consume', 'extract'):
        extend(u, 'fn ' + f, 'ensures', [
            STREAM % ('tokens', 'tokens'),
            '[C13.pspan.one_token_is_taken] (old(tokens).tokens@.len() > 0 ==> took(*old(tokens), *final(tokens), 1) && taken(*old(tokens), *final(tokens)) == 1) && (old(tokens).tokens@.len() == 0 ==> took(*old(tokens), *final(tokens), 0)),',
            '[C13.pspan.error_is_located_in_the_lexed_text] stream_wf(*old(tokens)) && r is Err ==> err_at(*old(tokens), r->Err_0),',
            '[C13.pspan.cursor_reports_only_end_of_file_lexical_or_unexpected_token] r is Err ==> r->Err_0 is UnexpectedEndOfFile || r->Err_0 is Lexical || r->Err_0 is UnexpectedToken,',
            '[C13.pspan.error_points_at_the_offending_token] r is Err && old(tokens).tokens@.len() > 0 ==> !(r->Err_0 is UnexpectedEndOfFile) && perr(r->Err_0) && perr_loc(r->Err_0) == next_location(*old(tokens)),',
            '[C13.pspan.end_of_file_points_at_the_last_token] old(tokens).tokens@.len() == 0 ==> r->Err_0 is UnexpectedEndOfFile && perr_loc(r->Err_0) == old(tokens).last_location'
            ' && r->Err_0->UnexpectedEndOfFile_last_location == old(tokens).last_location,'])
    UNI = ['[C13.pspan.cursor_stays_well_formed] stream_wf(*final(tokens)),',
           '[C13.pspan.expression_spans_its_tokens] r is Ok ==> loc_ok(r->Ok_0) && node_at(*old(tokens), *final(tokens), eloc(r->Ok_0), 0),',
           '[C13.pspan.error_is_located_in_the_lexed_text] r is Err ==> err_at(*old(tokens), r->Err_0),']
    for f, rank in (('parse_unary_expression', 7),):
        extend(u, 'fn ' + f, 'requires', ['[C13.pspan.token_locations_are_ordered_forward_spans] ordered(old(tokens).tokens@),'])
        extend(u, 'fn ' + f, 'decreases', ['old(tokens).tokens@.len(), %dint' % rank])
    cp = u.contracts['fn parse_primary_expression']
    # the C09 literal clauses of U-PLIT stay with U-PLIT (verified there on the same text); here the function carries the location clauses
    cp.clauses = [('requires', ['[C13.pspan.token_locations_are_ordered_forward_spans] stream_wf(*old(tokens)),']),
                  ('ensures', ['tokens_wf(*final(tokens)),', 'r is Ok ==> expr_wf(r->Ok_0),'] + UNI),
                  ('decreases', ['old(tokens).tokens@.len(), 6int'])]
    if 'parse_primary_expression' in verified:
        primary_hints(cp)
    cu = u.contracts['fn parse_unary_expression']
    # the C09 literal clauses of parse_unary_expression rest on those of parse_primary_expression: they stay with U-PLIT
    cu.clauses = [(sec, (['tokens_wf(*final(tokens)),', 'r is Ok ==> expr_wf(r->Ok_0),'] + UNI)
        if sec == 'ensures' else ls) for sec, ls in cu.clauses]
    cu.inserts = [x for x in cu.inserts if not any('theorem_' in l for l in x[3])]
    cu.body_prefix.insert(0, '\tbroadcast use lemma_took_trans;')
    emit_types(u)
    for it in ('struct Comparison', 'struct Else', 'enum Statement', 'struct Block'):
        u.emit(C, it, derive_drop=['Clone'])
    u.emit(P, 'const MAX_ADDRESS_DEPTH')
    u.emit(P, 'const MAX_REFERENCE_DEPTH')
    u.emit(P, 'struct Tokens', pub_fields=True)
    u.include('spec/u_plit_spec.rs', kind='spec')
    u.include('spec/u_pspan_spec.rs', kind='spec')
    u.emit(L, 'impl Location', only=['combined_with'], rules=[rules.r21_cmp_minmax])
    u.emit(P, 'impl Tokens', only=['pop_front', 'start_location_span', 'location_of_span'])
    # Tokens::with_reservation / TokenReservation (a guard holding `&mut Tokens`, with AsMut and Drop): only parse_statement uses them; they are
    # emitted as EXTERNAL items (real text, ignored by the verifier) so that the external body of parse_statement compiles
    ext = lambda t: '#[verifier::external]\n' + t
    u.emit(P, 'struct TokenReservation', pre=ext)
    u.emit(P, "impl<'a> AsMut<Tokens> for TokenReservation<'a>", pre=ext)
    u.emit(P, "impl<'a> Drop for TokenReservation<'a>", pre=ext)
    u.emit(P, 'impl Tokens', only=['with_reservation'], pre=ext)
    if 'parse_statement' in verified:
        src = u.source(P)
        wr = [ch for ch in src.find('impl Tokens').children if ch.kind == 'fn' and ch.name == 'with_reservation'][0]
        u.raw('//@prelude generated from Tokens::with_reservation and Drop::drop of TokenReservation (rule PS2)\n'
              + PR.reservation_methods(u.clean(wr.text), src.find("impl<'a> Drop for TokenReservation<'a>").text) + '//@end')
    u.emit(P, 'impl Token')
    u.emit(P, 'fn peek')
    u.emit(P, 'fn consume')
    u.emit(P, 'fn extract')
    u.emit(P, 'fn extract_identifier')
    u.include('prelude/pspan_callees.rs')
    # find_builtin (serde_plain) and i128::unsigned_abs: the trusted text of prelude/plit_callees.rs, taken from that file
    pc = open(os.path.join(u.verif, 'prelude/plit_callees.rs')).read()
    i = pc.index('#[verifier::external_body]\npub fn find_builtin')
    u.raw('//@prelude prelude/plit_callees.rs (find_builtin, i128::unsigned_abs)\n' + pc[i:] + '\n//@end')
    u.emit(C, 'impl Expression', only=['location'])
    for f in ('parse_expression', 'parse_addition', 'parse_rest_of_bitwise_expression', 'parse_rest_of_bitshift_operation', 'parse_multiplication',
              'parse_singular_expression', 'parse_unary_expression', 'parse_primary_expression', 'parse_arguments', 'parse_rest_of_array',
              'parse_body_of_structural', 'parse_addressed_reference', 'parse_reference', 'parse_rest_of_reference',
              'parse_wellformed_type', 'parse_inner_type', 'parse_comparison', 'parse_rest_of_block', 'parse_statement'):
        if f not in verified:
            externalize(u.contracts['fn ' + f])
        u.emit(P, 'fn ' + f, rules=[PR.ps1_hoist_peek_guard] + ([PR.ps2_reservation] if f in verified else []))
    if extra_types:
        extra_types(u)
    for f in extra:
        u.emit(P, 'fn ' + f, rules=[PR.ps1_hoist_peek_guard] + list(extra_rules))


def primary_hints(cp):
    """ghost support of parse_primary_expression under the uniform contract (U-PSPAN2): the quantified definitions are hidden in the body
    (they make the many-armed function exhaust the resource limit) and every arm composes its callee's contract with the one token taken
    by `extract` through lemmas of spec/u_pspan_spec.rs"""
    cp.body_prefix = ['\thide(ordered); hide(tokens_wf);', '\tlet ghost t0 = *tokens;', '\tlet ghost s = t0.tokens@;', '\tlet ghost res = t0.reserved_token;', '\tproof { lemma_stream_head(t0); }']
    for lc in cp.loops:
        lc.clauses = [('invariant', [
            'tokens.reserved_token == res, s.len() >= 1, s == t0.tokens@, stream_wf(t0), stream_wf(*tokens), took(t0, *tokens, 1), forward(location),',
            '[C13.pspan.string_literal_spans_its_run] location.span.start == s[0].location.span.start && s[0].location.span.end <= location.span.end <= tokens.last_location.span.end'
            ' && same_line(location, s[0].location),',
            'tokens.tokens@.len() > 0 ==> tokens.last_location.span.start <= first_loc(*tokens).span.start && tokens.last_location.span.end <= first_loc(*tokens).span.end,',
            'forall|e: Error| #[trigger] err_at(*tokens, e) ==> err_at(t0, e),']),
            ('decreases', ['tokens.tokens@.len()'])]
    cp.inserts = []

    def hint(where, nth, anchor, *lines):
        cp.inserts.append((where, nth, anchor, list(lines)))
    hint('after', 0, 'let (token, location) = extract("Expected literal or identifier.", tokens)?;',
         '\tlet ghost t1 = *tokens;',
         '\tproof { lemma_first_taken(t0, t1); }')
    COMP = '\t\t\tproof { lemma_rest_taken(t0, t1, *tokens, %d); }'
    hint('after', 0, 'let arguments = parse_arguments(tokens)?;', COMP % 2)
    hint('after', 1, 'let arguments = parse_arguments(tokens)?;', COMP % 2)
    hint('after', 0, 'let members = parse_body_of_structural(tokens)?;', COMP % 2)
    hint('after', 0, 'parse_rest_of_reference(name, location, tokens)?;', COMP % 0)
    hint('after', 0, 'let reference = parse_addressed_reference(location, tokens)?;', COMP % 1, '\t\t\tlet ghost t2 = *tokens;')
    hint('after', 0, 'let location_of_op = tokens.last_location.clone();', '\t\t\t\tlet ghost t3 = *tokens;',
         '\t\t\t\tproof { lemma_rest_taken(t0, t2, t3, 1); }')
    hint('after', 0, 'let offset = parse_expression(tokens)?;', '\t\t\t\tproof { lemma_rest_taken(t0, t3, *tokens, 1); }')
    hint('after', 0, 'let array = parse_rest_of_array(array, tokens)?;', COMP % 1)
    hint('after', 0, 'let inner = parse_expression(tokens)?;', COMP % 1, '\t\t\tlet ghost t2 = *tokens;')
    hint('after', 0, 'consume(Token::ParenRight, tokens)?;', '\t\t\tproof { lemma_rest_taken(t0, t2, *tokens, 1); }')
    hint('before', 0, 'let (token, extra_location) = extract("", tokens)?;', '\t\t\t\tlet ghost before = *tokens;')
    hint('after', 0, 'let (token, extra_location) = extract("", tokens)?;', '\t\t\t\tproof { lemma_rest_taken(t0, before, *tokens, 1); }')
