"""U-PSPAN (C13 "diagnostics are well located") - the SPAN BOOKKEEPING of the first-generation parser src/alpha/parser.rs: a uniform
postcondition (spec/u_pspan_spec.rs: node_at / extends_loc / err_at) over the EXPRESSION LAYER.
VERIFIED here (real text): the cursor (pop_front, start_location_span, location_of_span, peek, consume, extract, extract_identifier),
  parse_expression, parse_addition, parse_rest_of_bitwise_expression, parse_rest_of_bitshift_operation, parse_multiplication,
  parse_singular_expression, parse_unary_expression, parse_arguments, parse_body_of_structural, parse_addressed_reference,
  parse_reference, parse_rest_of_reference; termination by (remaining tokens, rank).
ASSUMED here (real text sliced, external body, the uniform contract assumed):
  parse_primary_expression  its body under the uniform location clauses exhausts the resource limit (rlimit 150 tried, with and without the C09
                            clauses, with explicit composition hints); U-PLIT keeps verifying the same text under its C09 literal clauses
  parse_rest_of_array       verifies alone (verus --verify-function, rlimit 30) but exhausts the limit in the whole-file run
  parse_wellformed_type     the type layer (prelude/pspan_callees.rs); find_builtin; i128::unsigned_abs
NOT reached: types, statements (incl. the one Tokens::with_reservation site), declarations, parse().
Imported and extended (clauses appended): contracts/u_loc.vc, contracts/u_plit.vc; spec/u_plit_spec.rs and U-PLIT's type extraction."""
import os
import re
from vlib import rules
from vlib import vc
from units.u_align import import_contracts
from units.u_plit import emit_types, C, E, L, P
from units import u_pspan_rules as PR


RLIMIT = 40


def extend(u, key, section, lines):
    c = u.contracts[key]
    for k, (sec, ls) in enumerate(c.clauses):
        if sec == section:
            c.clauses[k] = (sec, list(ls) + list(lines))
            return
    # keep the order requires < ensures < decreases
    order = {'requires': 0, 'ensures': 1, 'decreases': 2}
    pos = len(c.clauses)
    for k, (sec, ls) in enumerate(c.clauses):
        if order.get(sec, 1) > order[section]:
            pos = k
            break
    c.clauses.insert(pos, (section, list(lines)))


STREAM = '[C13.pspan.cursor_stays_well_formed] stream_wf(*old(%s)) ==> stream_wf(*final(%s)),'


def build(u):
    u.load_contracts('contracts/u_pspan.vc')
    u.notes += [
        'precondition of every parse function: stream_wf = every token location is a forward span AND the spans are ordered along the stream (what U-LEXA proves of lex())',
        'FINDING (the contracts state what the code does): the location of a call f(x) is the location of the NAME only, so a node whose last operand is a call ends '
        'before its last token: node_at bounds the end (first token end <= end <= last token end) instead of pinning it; references, array literals and the '
        'bracketed unary forms do end at their last token (stated where proved)',
        'a bit cast `cast e` obeys the uniform rule (start, file, line and column of the `cast` keyword): clause cast_spans_from_its_keyword_to_its_type; the first version of this unit pinned the old behaviour (operand line) as a finding, which was a genuine violation and is repaired in the repository (ed22e30)',
        'rule PS1 (units/u_pspan_rules.py): a guarded `match peek(tokens) { Some(t) if G => A, _ => B }` has its guard hoisted (the verifier keeps the reborrow alive over the guarded match)',
        'parse_rest_of_bitwise_expression is verified with loop_isolation(false): its by-value parameter `expression` is reassigned in the loop and the postcondition speaks of its initial value',
        'in this unit parse_unary_expression carries the location clauses only; its C09 literal clauses (which rest on those of parse_primary_expression) stay with U-PLIT',
        'Err: one of UnexpectedEndOfFile / Lexical / UnexpectedToken / MaximumParseDepthExceeded, a forward span that does not end after the last lexed token; '
        'UnexpectedEndOfFile: location == last_location == location of the LAST token of the file; at the cursor (consume / extract / extract_identifier) '
        'every other error is located exactly at the offending token',
    ]
    u.load_contracts('contracts/u_plit.vc')
    u.load_contracts('contracts/u_loc.vc')
    # ---- the imported contracts, extended (clauses appended; nothing removed)
    extend(u, 'impl Tokens :: fn pop_front', 'ensures', [STREAM % ('self', 'self'),
        '[C13.pspan.pop_takes_one_token] r is Some ==> took(*old(self), *final(self), 1) && taken(*old(self), *final(self)) == 1,'])
    u.contracts['impl Tokens :: fn pop_front'].inserts.append(('before', 0, 'popped', [
        '\t\tproof { if old(self).tokens@.len() > 0 { if stream_wf(*old(self)) { lemma_suffix_wf(*old(self), *self, 1); } lemma_took_one(*old(self), *self); } }']))
    extend(u, 'impl Tokens :: fn location_of_span', 'ensures', [
        '[C13.pspan.span_location_is_tight] start is Some ==> (r.span.start == start->0.span.start || r.span.start == self.last_location.span.start)'
        ' && (r.span.end == start->0.span.end || r.span.end == self.last_location.span.end),'])
    for f in ('consume', 'extract'):
        extend(u, 'fn ' + f, 'ensures', [
            STREAM % ('tokens', 'tokens'),
            '[C13.pspan.one_token_is_taken] (old(tokens).tokens@.len() > 0 ==> took(*old(tokens), *final(tokens), 1) && taken(*old(tokens), *final(tokens)) == 1) && (old(tokens).tokens@.len() == 0 ==> took(*old(tokens), *final(tokens), 0)),',
            '[C13.pspan.error_points_at_the_offending_token] r is Err && old(tokens).tokens@.len() > 0 ==> !(r->Err_0 is UnexpectedEndOfFile) && perr(r->Err_0) && perr_loc(r->Err_0) == next_location(*old(tokens)),',
            '[C13.pspan.end_of_file_points_at_the_last_token] old(tokens).tokens@.len() == 0 ==> r->Err_0 is UnexpectedEndOfFile && perr_loc(r->Err_0) == old(tokens).last_location'
            ' && r->Err_0->UnexpectedEndOfFile_last_location == old(tokens).last_location,'])
    UNI = ['[C13.pspan.cursor_stays_well_formed] stream_wf(*final(tokens)),',
           '[C13.pspan.expression_spans_its_tokens] r is Ok ==> loc_ok(r->Ok_0) && node_at(*old(tokens), *final(tokens), eloc(r->Ok_0), 0),',
           '[C13.pspan.error_is_located_in_the_lexed_text] r is Err ==> err_at(*old(tokens), r->Err_0),']
    for f, rank in (('parse_unary_expression', 7),):
        extend(u, 'fn ' + f, 'requires', ['[C13.pspan.token_locations_are_ordered_forward_spans] ordered(old(tokens).tokens@),'])
        extend(u, 'fn ' + f, 'decreases', ['old(tokens).tokens@.len(), %dint' % rank])
    # parse_primary_expression: NOT verified in this unit (its body with the uniform location clauses exhausts the resource limit; see u.notes):
    # real text, external body, the uniform contract ASSUMED.  U-PLIT keeps verifying the same text under its C09 literal clauses.
    cp = u.contracts['fn parse_primary_expression']
    cp.clauses = [('requires', ['stream_wf(*old(tokens)),']), ('ensures', UNI)]
    cp.loops, cp.inserts, cp.body_prefix, cp.closures = [], [], [], []
    cp.attrs = ['#[verifier::external_body]']
    cu = u.contracts['fn parse_unary_expression']
    # the C09 literal clauses of parse_unary_expression rest on those of parse_primary_expression: they stay with U-PLIT
    cu.clauses = [(sec, (['tokens_wf(*final(tokens)),', 'r is Ok ==> expr_wf(r->Ok_0),'] + UNI)
        if sec == 'ensures' else ls) for sec, ls in cu.clauses]
    cu.inserts = [x for x in cu.inserts if not any('theorem_' in l for l in x[3])]
    cu.body_prefix.insert(0, '\tbroadcast use lemma_took_trans;')
    emit_types(u)
    u.emit(P, 'const MAX_ADDRESS_DEPTH')
    u.emit(P, 'const MAX_REFERENCE_DEPTH')
    u.emit(P, 'struct Tokens', pub_fields=True)
    u.include('spec/u_plit_spec.rs', kind='spec')
    u.include('spec/u_pspan_spec.rs', kind='spec')
    u.emit(L, 'impl Location', only=['combined_with'], rules=[rules.r21_cmp_minmax])
    u.emit(P, 'impl Tokens', only=['pop_front', 'start_location_span', 'location_of_span'])
    u.emit(P, 'impl Token')
    u.emit(P, 'fn peek')
    u.emit(P, 'fn consume')
    u.emit(P, 'fn extract')
    u.emit(P, 'fn extract_identifier')
    u.include('prelude/pspan_callees.rs')
    # find_builtin (serde_plain) and i128::unsigned_abs: the trusted text of prelude/plit_callees.rs, taken from that file
    pc = open(os.path.join(u.verif, 'prelude/plit_callees.rs')).read()
    i = pc.index('#[verifier::external_body]\npub fn find_builtin')
    u.raw('//@prelude prelude/plit_callees.rs (find_builtin, i128::unsigned_abs)\n' + pc[i:] + '\n//@end')
    u.emit(C, 'impl Expression', only=['location'])
    for f in ('parse_expression', 'parse_addition', 'parse_rest_of_bitwise_expression', 'parse_rest_of_bitshift_operation', 'parse_multiplication',
              'parse_singular_expression', 'parse_unary_expression', 'parse_primary_expression', 'parse_arguments', 'parse_rest_of_array',
              'parse_body_of_structural', 'parse_addressed_reference', 'parse_reference', 'parse_rest_of_reference'):
        u.emit(P, 'fn ' + f, rules=[PR.ps1_hoist_peek_guard])
