"""U-CONST (C08: only `var`s and explicitly passed pointers can be mutated) - the constant-expression pass.
  src/alpha/analyzer/constness.rs   whole file: analyze, trait Analyzable, every `impl Analyzable for ..`
                                    (Declaration, Array, Expression, ReferenceStep, Reference)
  src/alpha/common.rs               Reference::is_trivial (the test constness.rs applies to every reference in a constant),
                                    Expression::location  (read by the index-type check of ReferenceStep)
  src/alpha/typer.rs                trait Typed, `impl Typed for Expression` (the recorded-type accessor that check reads)
The mutability walk (U-MUTW) deliberately does not enter constant initialisers and relies on this pass: a constant
initialiser that survives it contains no address-taking, no indexing/member access, no call - nothing that could mutate.
The whole alpha AST of common.rs is sliced for real (type slicing shared with U-ALIGN / U-MUT / U-MUTW through emit_types);
only Location, lexer::Error, DeclarationFlag and EnumSet are opaque (the pass only moves / clones them)."""
from vlib import rules
from units.u_align import emit_types, import_contracts
F = 'src/alpha/analyzer/constness.rs'
C = 'src/alpha/common.rs'
T = 'src/alpha/typer.rs'


def inject(after_brace_text):
    def f(text):
        i = text.index('{')
        return text[:i + 1] + '\n' + after_brace_text + text[i + 1:]
    return f


def specs(pre, post):
    return inject('\topen spec fn pre(self) -> bool { %s }\n\topen spec fn post(self, r: Self) -> bool { %s }' % (pre, post))


def build(u):
    u.load_contracts('contracts/u_const.vc')
    import_contracts(u, 'contracts/u_mut.vc', ['impl PartialEq for Identifier :: fn eq'])
    u.notes += [
        'trusted: [T]::reverse spec (rule R1 reverses the moved vector and pops), Result::clone spec, vstd Vec / Option specs, derived Clone of '
        'Location/Identifier/Poison/Error/ValueType is the identity',
        'opaque: Location, lexer::Error, DeclarationFlag, EnumSet<T> (only moved or cloned)',
        'oracle is relational (ok_*(result, input)): a Vec cannot be built in spec code, so "result == oracle" is stated as "same constructor, same '
        'non-recursive fields, children pairwise related, same length and order"; rejected nodes and leaves are stated with ==',
        'caller obligation (spec fn pre_step, reached from NO call site inside the file: a reference with steps is rejected before its steps are '
        'analysed): an index expression that is an automatic coercion to a type other than usize must survive the pass '
        '(Expression::location is unreachable!() on Poison) - ReferenceStep::analyze is dead code with a latent panic',
        'the contract of Identifier::eq carries the clause text of contracts/u_mut.vc, that of ValueType::for_string_literal is imported verbatim from contracts/u_vt.vc; both re-verified here',
    ]
    emit_types(u, ['for_string_literal'])
    u.opaque += ['DeclarationFlag', 'EnumSet<T>']
    u.include('prelude/const_std.rs')
    for it in ['enum BinaryOp', 'enum UnaryOp', 'enum ComparisonOp', 'enum Builtin']:
        u.emit(C, it)
    for it in ['struct Array', 'struct MemberExpression', 'enum Expression', 'enum DesliceOffset', 'enum ReferenceStep', 'struct Reference',
               'struct Comparison', 'struct Else', 'enum Statement', 'struct Block', 'struct FunctionBody', 'struct Parameter', 'enum Declaration']:
        u.emit(C, it, derive_drop=['Clone'])
    u.include('spec/u_const_spec.rs', kind='spec')
    u.emit(C, 'impl Reference')
    u.emit(C, 'impl Expression', only=['location'])
    u.emit(T, 'trait Typed')
    u.emit(T, 'impl Typed for Expression')
    R1 = rules.r1_r2_map_collect(min_count=0)   # a changed tree that no longer maps/collects is judged by the postconditions
    u.emit(F, 'trait Analyzable', pre=inject('\tspec fn pre(self) -> bool;\n\tspec fn post(self, r: Self) -> bool;'))
    u.emit(F, 'impl Analyzable for Declaration', rules=[R1], pre=specs('true', 'ok_d(r, self)'))
    u.emit(F, 'impl Analyzable for Array', rules=[R1], pre=specs('true', 'ok_a(r, self)'))
    u.emit(F, 'impl Analyzable for Expression', rules=[R1], pre=specs('true', 'ok_e(r, self)'))
    u.emit(F, 'impl Analyzable for ReferenceStep', rules=[R1], pre=specs('pre_step(self)', 'ok_step(r, self)'))
    u.emit(F, 'impl Analyzable for Reference', rules=[R1], pre=specs('pre_r(self)', 'ok_r(r, self)'))
    u.emit(F, 'fn analyze')
