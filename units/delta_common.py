"""Shared extraction of the delta parse-node types (U-HDR, U-PBUF, U-PARSE)."""
import re
PN = 'src/delta/parser/parse_node.rs'
C = 'src/alpha/common.rs'
LX = 'src/delta/lexer.rs'


def tuple_pub(text):
    # `pub struct U24([u8; 3]);` -> field made pub so that the ghost value u24v() can read it
    return re.sub(r'struct U24\(\[u8; 3\]\)', 'struct U24(pub [u8; 3])', text)


def emit_nodes(u, convert=True):
    u.features.append('allocator_api')
    u.load_contracts('contracts/delta_nodes.vc')
    u.raw('use std::mem::MaybeUninit;')
    u.emit(C, 'enum DeclarationFlag', derive_add=['Clone', 'Copy', 'PartialEq', 'Eq'])
    u.notes.append('DeclarationFlag: #[derive(EnumSetType)] (third party) dropped; the Clone/Copy/PartialEq/Eq it provides re-added as plain derives')
    u.emit(C, 'enum BinaryOp')
    u.emit(C, 'enum UnaryOp')
    u.emit(C, 'enum ComparisonOp')
    u.emit(LX, 'enum ValueTypeKeyword')
    u.include('prelude/delta_enumset.rs')
    u.include('prelude/delta_uninit.rs')
    u.emit(PN, 'const MAX_NUM_NODES')
    u.emit(PN, 'struct NodeId')
    u.emit(PN, 'struct TokenId')
    u.emit(PN, 'struct U24', pre=tuple_pub)
    u.include('spec/delta_nodes_spec.rs', kind='spec')
    u.emit(PN, 'impl U24')
    u.emit(PN, 'impl From<U24> for u32')
    u.emit(PN, 'impl From<U24> for usize')
    u.emit(PN, 'enum ParseNode')
    if convert:
        u.emit(PN, 'impl ParseNode')
    else:
        u.emit(PN, 'impl ParseNode', only=['is_declaration'])
