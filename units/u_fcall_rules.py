"""Rewrite rules used only by unit U-FCALL (DESIGN.md 2.3; numbered locally FC1.. like units/u_res_rules.py).
Same conventions as vlib/rules.py: local, syntactic, semantics preserving, every application counted in `unit.rules`;
a rule that is required and does not find its pattern raises LostAnchor (exit 2, never an alarm)."""
import re
from vlib import rsparse
from vlib.rsparse import LostAnchor, tokenize


ZIP_FOR = re.compile(r'for\s*\(\s*(\w+)\s*,\s*(\w+)\s*\)\s*in\s+([\w.]+)\s*\.iter\(\)\s*\.zip\(\s*([\w.]+)\s*\.iter\(\)\s*\)\s*\{')


def fc1_for_zip(required=True):
    """FC1: `for (P, A) in X.iter().zip(Y.iter()) { BODY }`
         -> `let mut fc1_i: usize = 0; while fc1_i < X.len() && fc1_i < Y.len() { let P = &X[fc1_i]; let A = &Y[fc1_i]; BODY fc1_i += 1; }`
    (`zip` stops at the shorter of the two; only for bodies without `continue`/`break`, `return` is fine)."""
    def rule(u, key, text):
        n = 0
        while True:
            m = ZIP_FOR.search(text)
            if not m:
                break
            p, a, x, y = m.group(1), m.group(2), m.group(3), m.group(4)
            rest = text[m.end() - 1:]
            toks = tokenize(rest)
            match = rsparse.match_brackets_lenient(toks)
            close = match[0]
            body = rest[toks[0].end:toks[close].start]
            if re.search(r'\b(continue|break)\b', body):
                raise LostAnchor('%s: FC1 body contains continue/break' % key)
            new = ('let mut fc1_i: usize = 0;\n\t\t\twhile fc1_i < %s.len() && fc1_i < %s.len()\n\t\t\t{\n'
                   '\t\t\t\tlet %s = &%s[fc1_i];\n\t\t\t\tlet %s = &%s[fc1_i];%s\tfc1_i += 1;\n\t\t\t}'
                   % (x, y, p, x, a, y, body))
            text = text[:m.start()] + new + text[m.end() - 1 + toks[close].end:]
            u.rules['FC1'] += 1
            n += 1
        if required and n == 0:
            raise LostAnchor('%s: rule FC1 found no `for (p, a) in x.iter().zip(y.iter())`' % key)
        return text
    return rule


def only_for(keys, rule):
    def r(u, key, text):
        if any(key.endswith(k) for k in keys):
            return rule(u, key, text)
        return text
    return r


def fc2_field_option_map(path):
    """FC2 (= R3 for a field receiver): `self.FIELD.map(|p| BODY)` -> `match self.FIELD { Some(p) => Some({ BODY }), None => None }`
    (definition of Option::map; vlib.rules.r3_option_map only knows plain identifiers as receivers)."""
    from vlib.rules import _closure, _as_block
    from vlib.rsparse import match_brackets
    parts = path.split('.')

    def rule(u, key, text):
        toks = tokenize(text)
        match = match_brackets(toks)
        want = []
        for k, p in enumerate(parts):
            if k:
                want.append('.')
            want.append(p)
        want += ['.', 'map', '(']
        for i in range(len(toks) - len(want) - 1):
            if all(toks[i + k].text == w for k, w in enumerate(want)) and toks[i + len(want)].text == '|' \
                    and (i == 0 or toks[i - 1].text != '.'):
                mopen = i + len(want) - 1
                mclose = match[mopen]
                param, body = _closure(text, toks, match, mopen)
                new = 'match %s { Some(%s) => Some(%s), None => None }' % (path, param, _as_block(body))
                u.rules['R3'] += 1
                return text[:toks[i].start] + new + text[toks[mclose].end:]
        return text
    return rule
