"""U-LABEL: src/alpha/scoper/label_references.rs, whole file (C04: goto only jumps forward and outward)."""
from vlib import rules
from units.ast_common import emit_ast
F = 'src/alpha/scoper/label_references.rs'


def inject(after_brace_text):
    def f(text):
        i = text.index('{')
        return text[:i + 1] + '\n' + after_brace_text + text[i + 1:]
    return f


def build(u):
    u.load_contracts('contracts/u_label.vc')
    emit_ast(u)
    u.include('prelude/slice_find.rs')
    u.emit(F, 'struct Analyzer', pub_fields=True)
    u.include('spec/u_label_spec.rs', kind='spec')
    R14 = rules.r14_iter_find('Identifier', 'b == (x.name@ == identifier.name@)', written_for='x')
    u.emit(F, 'impl Analyzer', rules=[R14])
    R = [rules.r1_r2_map_collect(min_count=0)]
    u.emit(F, 'trait Analyzable', pre=inject(
        '\tspec fn pre(self, a: Analyzer) -> bool;\n\tspec fn post(self, r: Self, a0: Analyzer, a1: Analyzer) -> bool;'))
    u.emit(F, 'impl Analyzable for Declaration', rules=R, pre=inject(
        '\topen spec fn pre(self, a: Analyzer) -> bool { stk(a).len() == 0 && effd(self, a.resolution_id as int) <= u32::MAX }\n'
        '\topen spec fn post(self, r: Self, a0: Analyzer, a1: Analyzer) -> bool { okd(r, self, a0.resolution_id as int) && stk(a1) =~~= stk(a0) && a1.resolution_id == effd(self, a0.resolution_id as int) }'))
    u.emit(F, 'impl Analyzable for FunctionBody', rules=R, pre=inject(
        '\topen spec fn pre(self, a: Analyzer) -> bool { effs(as_block(self), 0, stk(a).push(Seq::empty()), a.resolution_id as int).1 <= u32::MAX }\n'
        '\topen spec fn post(self, r: Self, a0: Analyzer, a1: Analyzer) -> bool { okf(r, self, stk(a0), a0.resolution_id as int) && stk(a1) =~~= stk(a0)\n'
        '\t\t&& a1.resolution_id == effs(as_block(self), 0, stk(a0).push(Seq::empty()), a0.resolution_id as int).1 }'))
    u.emit(F, 'impl Analyzable for Block', rules=R, pre=inject(
        '\topen spec fn pre(self, a: Analyzer) -> bool { effs(self, 0, stk(a).push(Seq::empty()), a.resolution_id as int).1 <= u32::MAX }\n'
        '\topen spec fn post(self, r: Self, a0: Analyzer, a1: Analyzer) -> bool { okb(r, self, stk(a0), a0.resolution_id as int) && stk(a1) =~~= stk(a0)\n'
        '\t\t&& a1.resolution_id == effs(self, 0, stk(a0).push(Seq::empty()), a0.resolution_id as int).1 }'))
    u.emit(F, 'impl Analyzable for Statement', rules=R, pre=inject(
        '\topen spec fn pre(self, a: Analyzer) -> bool { stk(a).len() >= 1 && eff(self, stk(a), a.resolution_id as int).1 <= u32::MAX }\n'
        '\topen spec fn post(self, r: Self, a0: Analyzer, a1: Analyzer) -> bool { ok(r, self, stk(a0), a0.resolution_id as int)\n'
        '\t\t&& stk(a1) =~~= eff(self, stk(a0), a0.resolution_id as int).0 && a1.resolution_id == eff(self, stk(a0), a0.resolution_id as int).1 }'))
    u.emit(F, 'fn analyze', rules=R)
