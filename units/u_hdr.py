"""U-HDR: header extraction (C17; its unsafe set_len and buffer writes are C15 obligations).
src/delta/parser/parse_tree.rs: ParseTree::{build_header, build_header_nodes};
src/delta/parser/parse_node.rs: ParseNode::{convert_for_head, is_declaration}, U24 / NodeId conversions."""
from vlib import rules
from units.delta_common import emit_nodes
PT = 'src/delta/parser/parse_tree.rs'


def parse_tree_fields(text):
    # the error list is irrelevant to header extraction: ParsingError made opaque in this unit
    return text


def build(u):
    u.load_contracts('contracts/u_hdr.vc')
    emit_nodes(u, convert=True)
    u.raw('#[verifier::external_body] pub struct ParsingError { _p: u8 }')
    u.opaque.append('ParsingError')
    u.include('spec/u_hdr_spec.rs', kind='spec')
    u.emit(PT, 'struct ParseTree', pub_fields=True)
    u.emit(PT, 'impl ParseTree #1', only=['build_header', 'build_header_nodes'],
           rules=[rules.r13_assert_eq, rules.r19_with_capacity, rules.r4_inline_closure('push'), rules.r17_for_enumerate, rules.only_for([':: fn build_header'], rules.r18_annotate('declarations', 'Vec<NodeId>'))])
