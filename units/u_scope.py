"""U-SCOPE (C11: top-level declarations are order-independent and must be well-formed) - NAME RESOLUTION, dependency
recording and depth assignment of top-level declarations in src/alpha/scoper/variable_references.rs (`impl Analyzer`, predeclare):
  declare_constant, declare_struct, declare_function      duplicates E423 / E425 / E421; a constant and a structure may share a name
  declare_variable, declare_parameter, declare_member     duplicates E422 / E424 / E426 (a name visible in ANY scope is taken)
  use_struct, use_constant, use_function                  E405 / E433, E402 / E401; a type name resolves to a structure only
  use_containee, found_container_1                        the dependency constant -> containee, kept transitive; E413 / E415 / E416
  determine_container_depths                              the round in which all dependencies of a container are resolved, else poison
  predeclare                                              every top-level name is entered before anything is resolved
  error.rs `impl From<Error> for Poison`                  (`error.into()`)
NOT in the unit: found_container (the walk over a ValueType that calls found_container_1 for every identifier in it: needs the
real value_type.rs types, which the statement-tree AST extraction keeps opaque), use_variable / prepare_to_prune_at_goto /
prune_at_label (C05: HashMap entry/retain closures), obtain_container_depth / postanalyze (Option<Result<..>>::clone has no
usable spec), analyze and the `Analyzable` tree walk.
The AST types are those of the statement-tree units (units/ast_common.py); Analyzer, Container, Pruning, UnresolvedPruning are
sliced.  Nothing of the repository is assumed: every sliced function body is verified."""
from vlib import rules
from units.ast_common import emit_ast
from units import u_scope_rules as SR
F = 'src/alpha/scoper/variable_references.rs'
E = 'src/alpha/error.rs'
IMPL = 'impl Analyzer'
BY_NAME = 'b == (x.name@ == identifier.name@)'


def rules_found_container_1():
    """found_container_1 has its own rules (its closures look at resolution ids and dependency sets, not at names); shared with U-VARS,
    which re-verifies the function under the same contract (use_variable reaches it through use_containee)"""
    return [SR.sc4_iter_mut_find_expect('Container', 'b == (x.identifier.resolution_id == container_id)', find_label='C11.scope.container_found_by_resolution_id'),
            SR.sc1_chain_find('Container', 'Container', 'b == !x.is_structure', '*r == *x', 'b == cycle@.contains(x.identifier.resolution_id)',
                              filter_label='C11.scope.E416_names_a_constant', find_label='C11.scope.E416_names_a_constant_of_the_cycle'),
            SR.r14_named('Container', 'b == (x.identifier.resolution_id == containee_id)', find_label='C11.scope.containee_found_by_resolution_id'),
            SR.sc5_for_mut, SR.sc6_hashset_union]


def build(u):
    u.features.append('allocator_api')   # signature of HashSet::clone (prelude/scope_hashset.rs)
    u.load_contracts('contracts/u_scope.vc')
    u.notes += [
        'trusted std specs: Option::flatten (prelude/scope_std.rs); HashSet<u32>::clone is an equal set, `&a | &b` is the union, `&a - &b` the difference '
        '(prelude/scope_hashset.rs: one assumed spec, two wrappers whose body is the operator application); vstd specs of Vec, Option::{map, unwrap, expect}, '
        'Result::map_err, [T]::{get, last_mut}, String::{eq, clone}, HashSet::{new, default, insert, contains, is_empty}',
        'trusted glue: derived Clone of Identifier/Poison/Error/Location is the identity (prelude/ast_opaque.rs, spec/ast_common_spec.rs), '
        'FromSpecImpl<Error> for Poison restates the VERIFIED From impl',
        'verified helpers prelude/scope_find.rs, slice_find.rs, slice_position.rs restate the lazy iterator chains as loops (rules SC1, SC3, SC4, R14); '
        'every closure body is kept verbatim; `for x in &mut v` becomes an index loop (SC5)',
        'the real code enters a name even when the declaration is rejected as a duplicate (a second container / list entry with a fresh id): '
        'clause first_declaration_keeps_the_name proves that this never changes what any name resolves to',
        'found_container_1 keeps its two expect() calls as preconditions (container / containee predeclared); they are PROVED at the call sites '
        '(use_struct: the identifier was just found in the container list; use_constant: precondition constants_are_containers, which '
        'declare_constant establishes while the stack has one layer: clause constant_layer_mirrors_constant_containers + lemma_mirror_gives_containers)',
        'caller obligations that no call site in this unit discharges (they belong to `analyze` / the tree walk): fewer than 2^32 ids, at least one open '
        'scope when something is declared, in_constexpr_of_constant names a predeclared constant, fewer than 2^32 - 1 containers',
        'theorems (spec/u_scope_spec.rs): theorem_other_namespace_is_invisible, theorem_resolution_is_by_name_not_by_position, '
        'theorem_a_dependency_is_rejected_iff_it_closes_a_cycle, theorem_depths_do_not_depend_on_declaration_order',
    ]
    emit_ast(u)
    u.include('prelude/scope_std.rs')
    u.include('prelude/slice_find.rs')
    u.include('prelude/scope_find.rs')
    u.include('prelude/slice_position.rs')
    u.include('prelude/scope_hashset.rs')
    u.emit(E, 'impl From<Error> for Poison')
    u.emit(F, 'struct Analyzer', pub_fields=True)
    u.emit(F, 'struct Container', pub_fields=True)
    u.emit(F, 'struct UnresolvedPruning', pub_fields=True)
    u.emit(F, 'struct Pruning', pub_fields=True)
    u.include('spec/u_scope_spec.rs', kind='spec')
    u.emit(F, IMPL, only=['found_container_1'], rules=rules_found_container_1())
    u.emit(F, IMPL, only=['determine_container_depths'], rules=[SR.sc5_for_mut, SR.sc7_hashset_difference])
    structs = SR.sc1_chain_find('Container', 'Identifier', 'b == x.is_structure', '*r == x.identifier', BY_NAME,
                                filter_label='C11.scope.structure_lookup_skips_constants', map_label='C11.scope.lookup_projects_the_declared_identifier',
                                find_label='C11.scope.lookup_is_by_name')
    consts = SR.sc1_chain_find('Container', 'Identifier', 'b == !x.is_structure', '*r == x.identifier', BY_NAME,
                               filter_label='C11.scope.constant_lookup_skips_structures', map_label='C11.scope.lookup_projects_the_declared_identifier',
                               find_label='C11.scope.lookup_is_by_name')
    R = [rules.only_for([':: fn use_struct', ':: fn declare_struct'], structs),
         rules.only_for([':: fn declare_constant'], consts),
         rules.only_for([':: fn use_constant'], SR.sc3_nested_find('Identifier', BY_NAME, find_label='C11.scope.lookup_is_by_name')),
         SR.r14_named('Identifier', BY_NAME, find_label='C11.scope.lookup_is_by_name')]
    u.emit(F, IMPL, only=['declare_constant', 'declare_struct', 'declare_function', 'declare_variable', 'declare_parameter', 'declare_member',
                          'use_struct', 'use_constant', 'use_function', 'use_containee'], rules=R)
    u.emit(F, 'fn predeclare')
