"""U-PLIT (C09 "literals mean exactly what they say") - literal handling of the first-generation parser src/alpha/parser.rs.
  parser.rs   parse_primary_expression (WHOLE function: the literal arms are under the C09 clauses, the identifier / builtin / `&` /
              array / parenthesis arms are verified for location hygiene only, behind assumed callees), parse_unary_expression
              (`-` literal folding incl. the magnitude of i128::MIN (repair D8), `!`, `|x|`, `|:T|`), the cursor: peek, consume,
              extract, Token::expectation, struct Tokens, Tokens::{pop_front, start_location_span, location_of_span}
  lexer.rs    enum Token, enum Error, struct Location, struct LexedToken, Location::combined_with
  common.rs   the real expression tree (Expression, Array, MemberExpression, Reference, ReferenceStep, DesliceOffset, operators,
              Builtin, Identifier), Expression::location;  error.rs  enum Error, enum Poison;  value_type.rs  enum ValueType, is_signed
Imported, not duplicated: contracts/u_loc.vc (Location::combined_with, Tokens::{pop_front, start_location_span, location_of_span};
loaded whole and re-verified here), prelude/vecdeque_front.rs, prelude/usize_minmax.rs, the U-VT contract of `is_signed` and
spec/u_vt_spec.rs.  `Tokens::with_reservation` / TokenReservation (Drop) are not called by these functions and are left out; the
RESERVED token they set is modelled (`peeked`: the cursor hides a next token that compares equal to it).
Assumed (prelude/plit_callees.rs): the callees outside the unit (parse_expression, parse_reference, parse_arguments, ...) keep
token locations forward spans and return forward-located nodes - nothing about WHAT they parse; i128::unsigned_abs.
Assumed (prelude/plit_types.rs): derived Clone of Location / Identifier is the identity; derived PartialEq of Token is an
UNINTERPRETED relation (nothing assumed about which tokens compare equal)."""
from vlib import rules
from units.u_align import import_contracts, VT_IMPL

VT = 'src/alpha/value_type.rs'
C = 'src/alpha/common.rs'
E = 'src/alpha/error.rs'
L = 'src/alpha/lexer.rs'
P = 'src/alpha/parser.rs'


def emit_types(u):
    """the real types the two parse functions touch: value_type.rs in `mod value_type` (as in the crate; `is_signed` under its U-VT
    contract), lexer.rs Token / Error / Location / LexedToken, common.rs expression tree, error.rs Error / Poison"""
    u.features.append('allocator_api')
    import_contracts(u, 'contracts/u_vt.vc', ['%s :: fn is_signed' % VT_IMPL])
    u.raw('pub mod value_type {\nuse vstd::prelude::*;\nuse vstd::std_specs::cmp::{PartialEqSpec, PartialEqSpecImpl};')
    u.include('prelude/std_box_option.rs')
    u.emit(VT, 'trait Identifier')
    u.emit(VT, 'const MAXIMUM_ALIGNMENT')
    u.emit(VT, 'enum ValueType', derive_drop=['Clone'])
    u.emit(VT, 'enum OperandValueType', derive_drop=['Clone'])
    u.emit(VT, VT_IMPL, only=['is_signed'])
    u.include('spec/u_vt_spec.rs', kind='spec')
    u.raw('} // mod value_type')
    u.raw('pub mod lexer {\nuse vstd::prelude::*;\nuse super::*;')
    u.emit(L, 'enum Error')
    u.emit(L, 'struct Location', derive_drop=['Clone'])
    u.emit(L, 'enum Token', derive_drop=['PartialEq'])
    u.emit(L, 'struct LexedToken')
    u.raw('} // mod lexer\npub use lexer::{LexedToken, Token, Location};')
    u.raw('use std::collections::VecDeque;')
    u.include('prelude/usize_minmax.rs')
    u.include('prelude/vecdeque_front.rs')
    u.include('prelude/plit_types.rs')
    u.emit(C, 'type ValueType')
    u.emit(E, 'type OperandValueType')
    u.emit(E, 'type Poisonable')
    u.emit(C, 'struct Identifier', derive_drop=['Clone'])
    u.emit(C, 'impl value_type::Identifier for Identifier')
    u.emit(C, 'impl PartialEq for Identifier')
    u.emit(E, 'enum Poison', derive_drop=['Clone'])
    u.emit(E, 'enum Error', derive_drop=['Clone'])
    for it in ['enum BinaryOp', 'enum UnaryOp', 'enum ComparisonOp', 'enum Builtin']:
        u.emit(C, it)
    for it in ['struct Array', 'struct MemberExpression', 'enum Expression', 'enum DesliceOffset', 'enum ReferenceStep', 'struct Reference']:
        u.emit(C, it, derive_drop=['Clone'])


def build(u):
    u.load_contracts('contracts/u_plit.vc')
    u.load_contracts('contracts/u_loc.vc')
    u.opaque += ['callees outside the unit: parse_expression, parse_wellformed_type, parse_reference, parse_rest_of_reference, parse_addressed_reference, '
                 'parse_arguments, parse_body_of_structural, parse_rest_of_array, find_builtin (results unconstrained; location hygiene assumed)']
    u.notes += [
        'no rewrite rules needed except R21 (std::cmp::min/max in Location::combined_with, as in U-LOC): both parse functions are verified verbatim, '
        'including `while let Some(..) = peek(tokens)`, `?`, `value as i128`, `-value`, `i128::MIN.unsigned_abs()`, `u128::from(u8)`',
        'trusted: derived PartialEq of Token = uninterpreted relation token_eq; derived Clone of Location / Identifier = identity; i128::unsigned_abs spec; '
        'VecDeque::front spec (prelude/vecdeque_front.rs); callee location hygiene (prelude/plit_callees.rs)',
        'U-LOC contracts (contracts/u_loc.vc) and the U-VT contract of is_signed imported verbatim and re-verified here',
    ]
    emit_types(u)
    u.emit(P, 'struct Tokens', pub_fields=True)
    u.include('spec/u_plit_spec.rs', kind='spec')
    u.emit(L, 'impl Location', only=['combined_with'], rules=[rules.r21_cmp_minmax])
    u.emit(P, 'impl Tokens', only=['pop_front', 'start_location_span', 'location_of_span'])
    u.emit(P, 'impl Token')
    u.emit(P, 'fn peek')
    u.emit(P, 'fn consume')
    u.emit(P, 'fn extract')
    u.include('prelude/plit_callees.rs')
    u.emit(C, 'impl Expression', only=['location'])
    u.emit(P, 'fn parse_primary_expression')
    u.emit(P, 'fn parse_unary_expression')
