"""U-MUT (C08: only `var`s and explicitly passed pointers can be mutated; E530, E513 hint).
  src/alpha/analyzer/mutability.rs      needs_outer_mutability, Analyzer::{declare_variable, use_variable}
  src/alpha/analyzer/function_calls.rs  can_hint_missing_address
The expression / reference types of alpha::common are sliced for real (the functions match on them)."""
from units.u_align import emit_types, VT_IMPL
C = 'src/alpha/common.rs'
M = 'src/alpha/analyzer/mutability.rs'
FC = 'src/alpha/analyzer/function_calls.rs'


def build(u):
    u.load_contracts('contracts/u_mut.vc')
    # can_coerce_address_into is called by can_hint_missing_address; it and its callees are re-verified here under
    # their U-VT contracts (imported verbatim from contracts/u_vt.vc)
    emit_types(u, ['can_coerce_address_into', 'equals', 'is_alias_of'])
    u.emit(C, 'enum BinaryOp')
    u.emit(C, 'enum UnaryOp')
    u.emit(C, 'enum Builtin')
    u.emit(C, 'struct Array', derive_drop=['Clone'])
    u.emit(C, 'struct MemberExpression', derive_drop=['Clone'])
    u.emit(C, 'enum Expression', derive_drop=['Clone'])
    u.emit(C, 'enum DesliceOffset', derive_drop=['Clone'])
    u.emit(C, 'enum ReferenceStep', derive_drop=['Clone'])
    u.emit(C, 'struct Reference', derive_drop=['Clone'])
    u.include('prelude/mut_std.rs')
    u.emit(M, 'struct Analyzer', pub_fields=True)
    u.include('spec/u_mut_spec.rs', kind='spec')
    u.emit(M, 'impl Analyzer')
    u.emit(M, 'fn needs_outer_mutability')
    u.emit(FC, 'fn can_hint_missing_address')
